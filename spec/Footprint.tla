----------------------------- MODULE Footprint -----------------------------
(***************************************************************************)
(* The footprint of the store under UNBOUNDED repetition of a finite       *)
(* request alphabet (C19).                                                 *)
(*                                                                         *)
(* The state is what the store holds and nothing else: per URI the variant *)
(* index (a sequence of references: Vary field set, resolved selecting     *)
(* values, entry id, rank of its Date), the set of entry ids present, the   *)
(* set of entries that are still fresh, and the rank of "now".  Dates are  *)
(* only ever compared, so they are kept as dense ranks (renumbered after   *)
(* every step): there is no clock, no counter and no history.  Time is the *)
(* action Tick (everything stored becomes stale and later answers carry a  *)
(* later Date; answers between two ticks carry the same Date, and the sort *)
(* of the index keeps the stored order among equal Dates), the origin's    *)
(* choices                                                                 *)
(* (304 / full reply with any Vary field set / reply that must not be      *)
(* stored / failure) and the client's choices (URI, selecting values,      *)
(* no-cache, unsafe request with or without a same-origin Location) are    *)
(* nondeterministic.  Every request is one atomic step shaped like         *)
(* roundtripper.go RoundTrip -> VaryHeadersMatch (sorts) ->                *)
(* handleCacheMiss / handleCacheHit -> StoreResponse (replace at refIndex  *)
(* or append, then drop every other reference to the same variant) and     *)
(* cacheinvalidator.go InvalidateCache.                                    *)
(*                                                                         *)
(* Because the state space is finite TLC explores ALL reachable store      *)
(* states, i.e. all histories of any length over the alphabet: Bounded,    *)
(* OneRefPerVariant, Reachable and the action property InvalidationCleans  *)
(* then hold for unbounded repetition - on the model.  The pinned design   *)
(* (Defects = {"append_dup"}: no dropping of older references) has an      *)
(* infinite state space; TLC refutes Bounded for it.                       *)
(*                                                                         *)
(* Binding: with Export = TRUE a history variable records the requests and *)
(* the predicted index length / key count after each; long behaviours      *)
(* from TLC's simulation mode are replayed into the real transport and the *)
(* recorded store operations are compared (drift) and judged (M19).        *)
(***************************************************************************)
EXTENDS Integers, Sequences, FiniteSets, TLC, Json, SequencesExt

CONSTANTS Defects, URIs, ValsA, ValsB, VarySets, Export, MaxHist

\* Vary field sets: 0 = none, 1 = (a), 2 = (a, b), 3 = (b), 4 = "*"
Fields(vs) == CASE vs = 1 -> <<2>> [] vs = 2 -> <<2, 3>> [] vs = 3 -> <<3>> [] OTHER -> <<>>
Sels == {<<0, 0, a, b>> : a \in ValsA, b \in ValsB}
\* resolved selecting values (responsestorerer.go: NormalizeVaryHeader over the request that fetched the response)
Res(vs, sel) == IF vs = 4 THEN <<<<9, 0>>>> ELSE [i \in 1..Len(Fields(vs)) |-> <<Fields(vs)[i], sel[Fields(vs)[i] + 1]>>]
Id(u, vs, sel) == <<u, Res(vs, sel)>>

VARIABLES idx, ent, fresh, nowr, hist
vars == <<idx, ent, fresh, nowr, hist>>

AllRes == {Res(vs, s) : vs \in VarySets, s \in Sels}
\* one reference per distinguishable variant (field set + resolved values)
Variants == {<<vs, Res(vs, s)>> : vs \in VarySets, s \in Sels}
IdxBound == Cardinality(Variants)
KeyBound == Cardinality(URIs) * (Cardinality(AllRes) + 1)

Init == idx = [u \in URIs |-> <<>>] /\ ent = {} /\ fresh = {} /\ nowr = 1 /\ hist = <<>>

(***************************************************************************)
(* internal/varymatcher.go                                                 *)
(***************************************************************************)
Class(r) == IF r.vs = 4 THEN 2 ELSE IF r.vs = 0 THEN 1 ELSE 0
\* slices.SortFunc on a short slice is an insertion sort: equal elements keep their stored order
Key(s, i) == <<Class(s[i]), s[i].rank, i>>
Less(a, b) == a[1] < b[1] \/ (a[1] = b[1] /\ (a[2] < b[2] \/ (a[2] = b[2] /\ a[3] < b[3])))
Sorted(s) == LET perm == SortSeq([i \in 1..Len(s) |-> Key(s, i)], Less) IN [i \in 1..Len(s) |-> s[perm[i][3]]]
Matches(r, sel) == r.vs # 4 /\ \A i \in 1..Len(r.res) : sel[r.res[i][1] + 1] = r.res[i][2]
FirstMatch(s, sel) == IF \E i \in 1..Len(s) : Matches(s[i], sel)
                        THEN CHOOSE i \in 1..Len(s) : Matches(s[i], sel) /\ \A j \in 1..(i - 1) : ~Matches(s[j], sel)
                      ELSE 0

(***************************************************************************)
(* internal/responsestorerer.go StoreResponse                              *)
(***************************************************************************)
\* ranks are only compared: renumber the ranks in use (and "now") densely so that the state stays finite
RanksOf(ix, now) == {now} \cup UNION {{ix[u][i].rank : i \in 1..Len(ix[u])} : u \in URIs}
Dense(ix, now, x) == Cardinality({y \in RanksOf(ix, now) : y < x}) + 1
Norm(ix, now) == [u \in URIs |-> [i \in 1..Len(ix[u]) |-> [ix[u][i] EXCEPT !.rank = Dense(ix, now, ix[u][i].rank)]]]
NewRefs(refs, ri, ref) ==
  LET r2  == IF ri >= 1 /\ ri <= Len(refs) THEN [refs EXCEPT ![ri] = ref] ELSE Append(refs, ref)
      pos == IF ri >= 1 /\ ri <= Len(refs) THEN ri ELSE Len(r2)
      keep == {i \in 1..Len(r2) : i = pos \/ "append_dup" \in Defects \/ ~(r2[i].id = ref.id /\ r2[i].res = ref.res)}
  IN SelectSeq([i \in 1..Len(r2) |-> IF i \in keep THEN r2[i] ELSE [r2[i] EXCEPT !.rank = -1]], LAMBDA r : r.rank # -1)

Store(u, refs, ri, vs, sel) ==
  LET id  == Id(u, vs, sel)
      ref == [vs |-> vs, res |-> Res(vs, sel), id |-> id, rank |-> nowr]
      raw == [idx EXCEPT ![u] = NewRefs(refs, ri, ref)]
  IN /\ idx' = Norm(raw, nowr)
     /\ nowr' = Dense(raw, nowr, nowr)
     /\ ent' = ent \cup {id}
     /\ fresh' = fresh \cup {id}

NKeys(i, e) == Cardinality(e) + Cardinality({u \in URIs : i[u] # <<>>})
\* the record of a step carries the model's prediction: length of that URI's index and number of keys afterwards
Log(rec) == hist' = IF Export /\ Len(hist) < MaxHist
                      THEN Append(hist, rec @@ [n |-> IF rec.u \in URIs THEN Len(idx'[rec.u]) ELSE 0, nkeys |-> NKeys(idx', ent')])
                    ELSE hist

(***************************************************************************)
(* roundtripper.go: one GET                                                *)
(*   how: "hit" | "304" | "full" (answer with Vary set avs) | "nostore" |   *)
(*   "fail"; nc: the request carries no-cache                              *)
(***************************************************************************)
Get(u, sel, nc, how, avs) ==
  LET refs == Sorted(idx[u])
      i    == FirstMatch(refs, sel)
      usable == i > 0 /\ refs[i].id \in ent
      isfresh == usable /\ refs[i].id \in fresh /\ ~nc
      rec(h, a) == [op |-> "get", u |-> u, sel |-> sel, nc |-> nc, how |-> h, avs |-> a, stale |-> usable /\ refs[i].id \notin fresh]
  IN \/ /\ isfresh /\ how = "hit" /\ avs = 0
        /\ UNCHANGED <<idx, ent, fresh, nowr>>
        /\ Log(rec("hit", 0))
     \/ /\ usable /\ ~isfresh /\ how = "304" /\ avs = 0
        \* the stored response is freshened and written back in place
        /\ Store(u, refs, i, refs[i].vs, sel)
        /\ Log(rec("304", 0))
     \/ /\ ~isfresh /\ how = "full" /\ avs \in VarySets
        /\ Store(u, refs, IF i > 0 THEN i ELSE 0, avs, sel)
        /\ Log(rec("full", avs))
     \/ /\ ~isfresh /\ how \in {"nostore", "fail"} /\ avs = 0
        /\ UNCHANGED <<idx, ent, fresh, nowr>>
        /\ Log(rec(how, 0))

(***************************************************************************)
(* internal/cacheinvalidator.go: an unsafe request answered with success;  *)
(* loc = a same-origin URI named by Location, or -1                         *)
(***************************************************************************)
IdsOf(s) == {s[i].id : i \in 1..Len(s)}
Unsafe(u, loc) ==
  LET gone == IdsOf(idx[u]) \cup (IF loc \in URIs THEN IdsOf(idx[loc]) ELSE {})
      raw == [v \in URIs |-> IF v = u \/ v = loc THEN <<>> ELSE idx[v]] IN
  /\ idx' = Norm(raw, nowr)
  /\ nowr' = Dense(raw, nowr, nowr)
  /\ ent' = ent \ gone
  /\ fresh' = fresh \ gone
  /\ Log([op |-> "unsafe", u |-> u, sel |-> <<0, 0, 0, 0>>, nc |-> FALSE, how |-> "inval", avs |-> loc, stale |-> FALSE])

Tick ==
  /\ fresh' = {}
  /\ idx' = Norm(idx, nowr + 1)
  /\ nowr' = Dense(idx, nowr + 1, nowr + 1)
  /\ UNCHANGED ent
  /\ Log([op |-> "tick", u |-> 0, sel |-> <<0, 0, 0, 0>>, nc |-> FALSE, how |-> "", avs |-> 0, stale |-> FALSE])

Next ==
  \/ \E u \in URIs, sel \in Sels, nc \in BOOLEAN, how \in {"hit", "304", "full", "nostore", "fail"}, avs \in VarySets \cup {0} :
       Get(u, sel, nc, how, avs)
  \/ \E u \in URIs, loc \in URIs \cup {-1} : loc # u /\ Unsafe(u, loc)
  \/ Tick

Spec == Init /\ [][Next]_vars

(***************************************************************************)
(* properties                                                              *)
(***************************************************************************)
\* the footprint is bounded by the distinct (URI, variant) pairs, however long the history
Bounded ==
  /\ \A u \in URIs : Len(idx[u]) <= IdxBound
  /\ NKeys(idx, ent) <= KeyBound
\* at most one reference per variant in an index
OneRefPerVariant ==
  \A u \in URIs : \A i, j \in 1..Len(idx[u]) : i # j => ~(idx[u][i].id = idx[u][j].id /\ idx[u][i].res = idx[u][j].res)
\* fresh entries exist; ranks are a permutation
WellFormed ==
  /\ fresh \subseteq ent
  /\ RanksOf(idx, nowr) = 1..nowr
\* invalidation removes the index and every entry it referenced
InvalidationCleans ==
  [][\A u \in URIs : (idx[u] # <<>> /\ idx'[u] = <<>>) => IdsOf(idx[u]) \cap ent' = {}]_vars
\* entries that no index references any more (left behind when a reference was replaced by another variant's)
Orphans == ent \ UNION {IdsOf(idx[u]) : u \in URIs}

\* simulation export: one behaviour per run that reached MaxHist steps
Exported == (Export /\ Len(hist) = MaxHist) => PrintT(ToJson([steps |-> hist]))
=============================================================================
