----------------------------- MODULE MC_fsched -----------------------------
(***************************************************************************)
(* Schedules of FsAtomic for replay (C15): the interleavings of two        *)
(* writers, one reader and one deleter at the granularity of the file-     *)
(* level steps, without faults, each recorded as the sequence of process   *)
(* steps that produced it together with what the reader must get.  The     *)
(* harness replays every schedule on a real directory by gating the        *)
(* processes at the step hooks of fscache (build tag verif).               *)
(***************************************************************************)
EXTENDS FsAtomic, Json

CONSTANTS Export

VARIABLE sch
svars == <<dir, ino, next, wpc, wval, wino, wn, rpc, rino, rbuf, dpc, results, ok, sch>>

\* writer w sets value w (values are the writers' numbers)
SInit == Init /\ sch = <<>>
SNext ==
  \/ \E w \in Writers :
       /\ (SetBegin(w, w) \/ Create(w) \/ WriteChunk(w) \/ WriteDone(w) \/ Rename(w))
       /\ sch' = Append(sch, [p |-> "w", i |-> w])
  \/ \E r \in Readers :
       /\ (GetOpen(r) \/ ReadSome(r) \/ ReadEOF(r) \/ TouchLive(r))
       /\ sch' = Append(sch, [p |-> "r", i |-> r])
  \/ \E d \in Deleters :
       /\ Delete(d)
       /\ sch' = Append(sch, [p |-> "d", i |-> d])
SSpec == SInit /\ [][SNext]_svars

AllDone == /\ \A w \in Writers : wpc[w] = "done"
           /\ \A r \in Readers : rpc[r] = "done"
           /\ \A d \in Deleters : dpc[d] = "done"
ResultOf(r) == LET res == CHOOSE x \in results : x[1] = r IN IF res[2] = NX THEN 0 ELSE res[2][1][1]
Exported == AllDone /\ Export =>
  PrintT(ToJson([sched |-> sch, reads |-> [r \in Readers |-> ResultOf(r)], final |-> IF dir[Live] = 0 THEN 0 ELSE ino[dir[Live]][1][1]]))
=============================================================================
