----------------------------- MODULE MC_decide -----------------------------
(***************************************************************************)
(* Decision table of the hit path as store - tick - probe scenarios        *)
(* (C01, C02, C09, C11, C13, C18): one stored response from a rich         *)
(* alphabet, one tick at the boundaries derived from that response, one    *)
(* probe request, and the origin's answer if the probe reaches it.         *)
(* Family "F" varies the freshness arithmetic, family "V" the validation   *)
(* directives.  Every complete scenario is exported as JSON together with  *)
(* the model's prediction; the harness replays it against the real code.   *)
(***************************************************************************)
EXTENDS HttpCache

CONSTANTS Family, Tier, Export

VARIABLE pos
vars == <<now, idx, ent, ex, ctr, led, hist, pos>>

Thorough == Tier = "thorough"

Rq0 == [ u |-> 0, m |-> "GET", range |-> 0, ma |-> None, mf |-> None, ms |-> None, sie |-> None, fl |-> <<>>,
         sel |-> <<0, 0, 0, 0>>, inm |-> 0, ims |-> 0, pragma |-> 0, ugap |-> 0, cancel |-> 0 ]

A0 == [ k |-> "full", st |-> 200, ccp |-> 0, ma |-> None, fl |-> <<>>, swr |-> None, sie |-> None, ncf |-> 0,
        nodate |-> 0, dsk |-> 0, ex |-> None, exneg |-> 0, lm |-> None, age |-> None, etag |-> 0,
        vary |-> <<>>, vs |-> 0, lat |-> 0, hop |-> 0, loc1 |-> 0, locso |-> 0, cloc1 |-> 0, clocso |-> 0, upd |-> 0,
        body |-> 0, fr |-> 0 ]

(***************************************************************************)
(* Family F: freshness arithmetic                                          *)
(***************************************************************************)
FMaxAge == IF Thorough THEN {<<0, None>>, <<1, None>>, <<1, 0>>, <<1, 5>>, <<1, CAP>>, <<1, Invalid>>}
           ELSE {<<0, None>>, <<1, 0>>, <<1, 5>>, <<1, CAP>>, <<1, Invalid>>}
FExpires == IF Thorough THEN {<<None, 0>>, <<Invalid, 0>>, <<7, 0>>, <<3, 1>>, <<0, 0>>} ELSE {<<None, 0>>, <<Invalid, 0>>, <<7, 0>>}
FLastMod == {None, 100}
FAge     == IF Thorough THEN {None, 0, 3, CAP, Invalid} ELSE {None, 3, CAP}
FDate    == IF Thorough THEN {<<0, 0>>, <<0, 4>>, <<0, -4>>, <<1, 0>>} ELSE {<<0, 0>>, <<0, 4>>, <<1, 0>>}
FLat     == IF Thorough THEN {0, 2} ELSE {0}
FStatus  == IF Thorough THEN {<<200, FALSE>>, <<302, FALSE>>, <<302, TRUE>>, <<404, FALSE>>} ELSE {<<200, FALSE>>, <<302, TRUE>>}

FStored ==
  { [A0 EXCEPT !.ccp = c[1], !.ma = c[2], !.ex = e[1], !.exneg = e[2], !.lm = l, !.age = a, !.nodate = d[1], !.dsk = d[2],
               !.lat = t, !.st = s[1], !.fl = IF s[2] THEN <<"public">> ELSE <<>>,
               !.ccp = IF s[2] THEN 1 ELSE c[1], !.etag = 1]
      : c \in FMaxAge, e \in FExpires, l \in FLastMod, a \in FAge, d \in FDate, t \in FLat, s \in FStatus }

FProbes ==
  { [Rq0 EXCEPT !.ma = a, !.mf = f, !.ms = s]
      : a \in (IF Thorough THEN {None, 0, 4} ELSE {None, 4}), f \in {None, 3}, s \in (IF Thorough THEN {None, NoArg, 5} ELSE {None, 5}) }

(***************************************************************************)
(* Family V: validation directives                                         *)
(***************************************************************************)
VNoCache == {<<FALSE, 0>>, <<TRUE, 0>>, <<TRUE, 1>>}
Flags(nc, mr, im) == (IF nc THEN <<"no-cache">> ELSE <<>>) \o (IF mr THEN <<"must-revalidate">> ELSE <<>>) \o (IF im THEN <<"immutable">> ELSE <<>>)
VValidators == IF Thorough THEN {<<1, 100>>, <<1, None>>, <<0, 100>>, <<0, None>>} ELSE {<<1, 100>>, <<0, None>>}
VStored ==
  { [A0 EXCEPT !.ccp = 1, !.ma = 5, !.fl = Flags(n[1], mr, im), !.ncf = n[2], !.swr = w, !.sie = e, !.etag = v[1], !.lm = v[2]]
      : n \in VNoCache, mr \in BOOLEAN, im \in (IF Thorough THEN BOOLEAN ELSE {FALSE}), w \in {None, 10}, e \in {None, 10}, v \in VValidators }

RFlags(nc, oic) == (IF nc THEN <<"no-cache">> ELSE <<>>) \o (IF oic THEN <<"only-if-cached">> ELSE <<>>)
VProbes ==
  { [Rq0 EXCEPT !.fl = RFlags(nc, oic), !.ma = a, !.ms = s, !.sie = e]
      : nc \in BOOLEAN, oic \in BOOLEAN, a \in {None, 0, 4},
        s \in (IF Thorough THEN {None, NoArg, 5} ELSE {None, 5}), e \in {None, 1, 10} }

Stored == IF Family = "F" THEN FStored ELSE VStored
Probes == IF Family = "F" THEN FProbes ELSE VProbes

\* answers to the probe's origin call
A304 == [A0 EXCEPT !.k = "304", !.st = 304, !.ccp = 1, !.ma = 50, !.etag = 1, !.upd = 1]
A200 == [A0 EXCEPT !.ccp = 1, !.ma = 60, !.etag = 2]
AErr == [A0 EXCEPT !.k = "err"]
AErrSlow == [A0 EXCEPT !.k = "err", !.lat = 3]      \* a failure that takes its time straddles the stale-if-error window
A5xx(s) == [A0 EXCEPT !.st = s]
A5xxSlow == [A0 EXCEPT !.st = 503, !.lat = 3]
A5xxSie == [A0 EXCEPT !.st = 503, !.ccp = 1, !.sie = 1000]

Answers ==
  IF ex.purpose = "reval" /\ (ex.stored.rep.etag > 0 \/ ex.stored.rep.lm >= 0)
    THEN IF Family = "F" THEN {A304, A200}
         ELSE IF Thorough THEN {A304, A200, AErr, AErrSlow, A5xx(500), A5xx(503), A5xxSlow, A5xx(404), A5xxSie}
         ELSE {A304, A200, AErr, AErrSlow, A5xx(503), A5xx(404)}
  ELSE IF ex.purpose = "reval" THEN (IF Family = "F" THEN {A200} ELSE {A200, AErr, A5xx(503)})
  ELSE {A200}
BgAnswers ==
  IF ex.stored.rep.etag > 0 \/ ex.stored.rep.lm >= 0 THEN {A304, A200, AErr} ELSE {A200, AErr}

\* ticks at the boundaries derived from the stored response
StoredRep == LET ids == DOMAIN ent IN IF ids = {} THEN NoEnt ELSE ent[CHOOSE i \in ids : TRUE]
Boundaries ==
  IF StoredRep = NoEnt THEN {1}
  ELSE LET r == StoredRep.rep
           a0 == CodeAge(r, now)
           L == CodeLife(r)
           pts == {L - 1, L, L + 1, L - 3, L - 4}
                  \cup (IF Family = "F" THEN {4, 5, L + 5, L + 6} ELSE {})
                  \cup (IF r.swr >= 0 THEN {L + r.swr - 1, L + r.swr, L + r.swr + 1, L + 2} ELSE {L + 2})
                  \cup (IF r.sie >= 0 \/ Family = "V" THEN {L + 9, L + 10, L + 11, L + 12} ELSE {})
                  \cup (IF Thorough THEN {L + 4, 9, 10, 11} ELSE {})
       IN { d \in { p - a0 : p \in pts } : d >= 0 /\ d < 2000 } \cup (IF Thorough THEN {0, CAP} ELSE {0})

Init == Init0 /\ pos = 1

Next ==
  \/ pos = 1 /\ ex.pc = "idle" /\ Begin(Rq0) /\ pos' = 2
  \/ pos \in {2, 4} /\ ex.pc = "origin" /\ (\E a \in (IF pos = 2 THEN Stored ELSE Answers) : Origin(a)) /\ UNCHANGED pos
  \/ ex.pc = "bgorigin" /\ (\E a \in BgAnswers : BgOrigin(a)) /\ UNCHANGED pos
  \/ pos = 2 /\ ex.pc = "idle" /\ (\E d \in Boundaries : Tick(d)) /\ pos' = 3
  \/ pos = 3 /\ ex.pc = "idle" /\ (\E rq \in Probes : Begin(rq)) /\ pos' = 4
  \/ Internal /\ UNCHANGED pos
  \/ pos = 4 /\ ex.pc = "idle" /\ pos' = 5
     /\ (Export => PrintT(ToJson([steps |-> hist])))
     /\ UNCHANGED <<now, idx, ent, ex, ctr, led, hist>>

Spec == Init /\ [][Next]_vars

\* the intended design satisfies every monitor that judges the code
NoViolation == Violated(led) = {}
\* sensitivity runs: print and go on
RecordViolations == Violated(led) = {} \/ PrintT(<<"MVIOL", Violated(led), led.last.kind>>)
=============================================================================
