------------------------------ MODULE MC_hist ------------------------------
(***************************************************************************)
(* Histories over the variant index, validation write-back and             *)
(* invalidation (C04, C07, C08, C09, C19).  Three families of bounded      *)
(* scenario trees, each a fixed sequence of positions with its own         *)
(* per-position alphabets:                                                 *)
(*   "vary"  - one URI, requests differing in selecting headers, origin    *)
(*             answers whose Vary changes over time: none, a, a+b, b, star    *)
(*   "inval" - two stored resources, an unsafe request of any method /     *)
(*             status / Location / Content-Location, then probes           *)
(*   "wb"    - a stored response that expires, is validated in the         *)
(*             foreground or (stale-while-revalidate) background with 304  *)
(*             or a full reply, then probes of the result; two variants    *)
(*   "cond"  - the client's own conditional request (If-None-Match with    *)
(*             the stored or another tag, If-Modified-Since) meets a       *)
(*             stored response with ETag / Last-Modified / both / none,    *)
(*             fresh or stale, with or without no-cache; the origin says   *)
(*             304 or sends a new representation; two plain probes follow  *)
(* Every complete history is exported with the model's predictions.        *)
(***************************************************************************)
EXTENDS HttpCache

CONSTANTS Family, Tier, Export

VARIABLE pos
vars == <<now, idx, ent, ex, ctr, led, hist, pos>>

Thorough == Tier = "thorough"

Rq0 == [ u |-> 0, m |-> "GET", range |-> 0, ma |-> None, mf |-> None, ms |-> None, sie |-> None, fl |-> <<>>,
         sel |-> <<0, 0, 0, 0>>, inm |-> 0, ims |-> 0, pragma |-> 0, ugap |-> 0, cancel |-> 0 ]

A0 == [ k |-> "full", st |-> 200, ccp |-> 1, ma |-> 100, fl |-> <<>>, swr |-> None, sie |-> None, ncf |-> 0,
        nodate |-> 0, dsk |-> 0, ex |-> None, exneg |-> 0, lm |-> None, age |-> None, etag |-> 1,
        vary |-> <<>>, vs |-> 0, lat |-> 0, hop |-> 0, loc1 |-> 0, locso |-> 0, cloc1 |-> 0, clocso |-> 0, upd |-> 0,
        body |-> 0, fr |-> 0 ]

Sel(a, b) == <<0, 0, a, b>>
A304 == [A0 EXCEPT !.k = "304", !.st = 304, !.ma = 50, !.upd = 1]
AErr == [A0 EXCEPT !.k = "err"]

(***************************************************************************)
(* family "vary"                                                           *)
(***************************************************************************)
VSels == IF Thorough THEN {Sel(0, 0), Sel(1, 0), Sel(2, 0), Sel(1, 1), Sel(1, 2)} ELSE {Sel(0, 0), Sel(1, 0), Sel(2, 0), Sel(1, 1)}
VVary == IF Thorough THEN {<<<<>>, 0>>, <<<<2>>, 0>>, <<<<2, 3>>, 0>>, <<<<3>>, 0>>, <<<<>>, 1>>} ELSE {<<<<>>, 0>>, <<<<2>>, 0>>, <<<<2, 3>>, 0>>, <<<<>>, 1>>}
VRq == { [Rq0 EXCEPT !.sel = s] : s \in VSels }
VAns == { [A0 EXCEPT !.ma = m, !.vary = v[1], !.vs = v[2]] : m \in {5, 100}, v \in VVary }
VDepth == 3

(***************************************************************************)
(* family "inval": store u=0 (variant a=1), store other resource, unsafe   *)
(* request to u=0, probe u=0, probe the other resource                     *)
(***************************************************************************)
IMethods == IF Thorough THEN {"POST", "PUT", "DELETE", "PATCH", "PROPPATCH", "MKCOL", "X-UNKNOWN", "HEAD", "OPTIONS"}
            ELSE {"POST", "DELETE", "PROPPATCH", "X-UNKNOWN", "HEAD"}
\* both ends of the 2xx and 3xx classes, the redirects that keep the method (307, 308), and what lies just outside
IStatus == IF Thorough THEN {200, 201, 204, 226, 299, 300, 301, 302, 303, 307, 308, 399, 400, 404, 500, 599}
           ELSE {200, 299, 301, 307, 308, 399, 400, 404}
\* <<loc1, locso>>: none, the other same-origin resource, a same-origin resource nothing is stored for, the cross-origin resource
ILoc == {<<0, 0>>, <<2, 1>>, <<3, 1>>, <<11, 0>>}
IAnsUnsafe == { [A0 EXCEPT !.st = s, !.ccp = 0, !.ma = None, !.etag = 0, !.loc1 = l[1], !.locso = l[2], !.cloc1 = c[1], !.clocso = c[2]]
                  : s \in IStatus, l \in ILoc, c \in (IF Thorough THEN ILoc ELSE {<<0, 0>>, <<2, 1>>}) }

(***************************************************************************)
(* family "wb": write-back of validation results                           *)
(***************************************************************************)
WStored == { [A0 EXCEPT !.ma = 5, !.swr = w, !.vary = <<2>>, !.lm = l] : w \in {None, 10}, l \in (IF Thorough THEN {None, 100} ELSE {None}) }
WFull == { [A0 EXCEPT !.ma = 60, !.etag = 2, !.vary = v[1], !.vs = v[2]] : v \in (IF Thorough THEN {<<<<2>>, 0>>, <<<<2, 3>>, 0>>, <<<<>>, 0>>} ELSE {<<<<2>>, 0>>, <<<<2, 3>>, 0>>}) }
W304Q == { A304, [A304 EXCEPT !.ma = None, !.nodate = 1], [A304 EXCEPT !.age = 2], [A304 EXCEPT !.etag = 2],
               [A304 EXCEPT !.ma = 5, !.nodate = 1],   \* a short new lifetime that starts when the 304 is received, not at the old Date
               [A304 EXCEPT !.ma = 5, !.age = 2],      \* ... of which the 304's own Age has used up a part
               [A304 EXCEPT !.fl = <<"must-revalidate">>, !.ma = 5], [A304 EXCEPT !.fl = <<"no-cache">>],
               [A304 EXCEPT !.vary = <<2, 3>>], [A304 EXCEPT !.vs = 1],   \* a 304 may change the Vary field like any other
               [A304 EXCEPT !.fl = <<"public">>] }      \* two directives: the lifetime is not the first one
\* thorough: lifetime x Age x Date in full, the other dimensions one at a time (the full product times the rest of the
\* tree does not finish)
W304 == IF Thorough THEN W304Q \cup { [A304 EXCEPT !.ma = m, !.age = a, !.nodate = d] : m \in {50, 5, None}, a \in {None, 2}, d \in {0, 1} }
                                   \cup { [A304 EXCEPT !.etag = 2, !.ma = m] : m \in {5, None} }
        ELSE W304Q

(***************************************************************************)
(* family "cond": client-supplied conditional requests                     *)
(***************************************************************************)
CStored == { [A0 EXCEPT !.ma = 5, !.etag = v[1], !.lm = v[2]] : v \in {<<0, None>>, <<1, None>>, <<0, 100>>, <<1, 100>>} }
CRq == { [Rq0 EXCEPT !.inm = c[1], !.ims = c[2], !.fl = f] : c \in {<<9, 0>>, <<1, 0>>, <<0, 1>>, <<9, 1>>}, f \in {<<>>, <<"no-cache">>} }
C304 == { [A304 EXCEPT !.etag = e] : e \in {1, 9} }
CFull == { [A0 EXCEPT !.ma = 50, !.etag = 2] }

Stored == IF DOMAIN ent = {} THEN NoEnt ELSE ent[CHOOSE i \in DOMAIN ent : TRUE]

(***************************************************************************)
(* per-position alphabets                                                  *)
(***************************************************************************)
LastPos == CASE Family = "vary" -> 2 * VDepth - 1
          [] Family = "inval" -> 5
          [] Family = "wb" -> 9
          [] Family = "cond" -> 7

IsTick(p) == CASE Family = "vary" -> p % 2 = 0
               [] Family = "inval" -> FALSE
               [] Family = "wb" -> p \in {3, 5, 7}
               [] Family = "cond" -> p \in {2, 4, 6}

Ticks(p) == CASE Family = "vary" -> {0, 7}
              [] Family = "wb" -> IF p = 3 THEN {7} ELSE IF p = 5 THEN {3, 60} ELSE {1}
              [] Family = "cond" -> IF p = 2 THEN {2, 9} ELSE IF p = 4 THEN {1} ELSE {100}
              [] OTHER -> {0}

Requests(p) ==
  CASE Family = "vary" -> VRq
    [] Family = "inval" ->
         IF p = 1 THEN {[Rq0 EXCEPT !.sel = Sel(1, 0)]}
         ELSE IF p = 2 THEN {[Rq0 EXCEPT !.u = u] : u \in {1, 10}}
         ELSE IF p = 3 THEN {[Rq0 EXCEPT !.m = m] : m \in IMethods}
         ELSE IF p = 4 THEN {[Rq0 EXCEPT !.sel = Sel(1, 0)], [Rq0 EXCEPT !.sel = Sel(2, 0)]}
         ELSE {[Rq0 EXCEPT !.u = u] : u \in {1, 10}}
    [] Family = "cond" -> IF p = 3 THEN CRq ELSE {Rq0}
    [] Family = "wb" ->
         IF p = 1 THEN {[Rq0 EXCEPT !.sel = Sel(1, 0)]}
         ELSE IF p = 2 THEN {[Rq0 EXCEPT !.sel = Sel(2, 0)]}
         ELSE IF p = 4 THEN {[Rq0 EXCEPT !.sel = Sel(1, 0)], [Rq0 EXCEPT !.sel = Sel(1, 0), !.fl = <<"no-cache">>],
                             [Rq0 EXCEPT !.sel = Sel(1, 0), !.fl = <<"no-store">>]}
         ELSE IF p = 6 THEN {[Rq0 EXCEPT !.sel = Sel(1, 0)], [Rq0 EXCEPT !.sel = Sel(1, 1)]}
         ELSE IF p = 8 THEN {[Rq0 EXCEPT !.sel = Sel(2, 0)]}
         ELSE {[Rq0 EXCEPT !.sel = Sel(1, 0)]}

HasValidators == ex.stored # NoEnt /\ (ex.stored.rep.etag > 0 \/ ex.stored.rep.lm >= 0)

Answers ==
  CASE Family = "vary" ->
         IF ex.purpose = "reval" /\ HasValidators THEN VAns \cup {A304} ELSE VAns
    [] Family = "inval" ->
         IF ex.purpose = "bypass" THEN (IF ex.rq.m \in {"HEAD", "OPTIONS"} THEN {[A0 EXCEPT !.ccp = 0, !.ma = None]} ELSE IAnsUnsafe)
         ELSE IF pos - 1 = 1 THEN {[A0 EXCEPT !.vary = <<2>>]}
         ELSE {A0}
    [] Family = "cond" ->
         IF pos - 1 = 1 THEN CStored
         \* the origin can answer 304 to any request that carries a condition - the cache's or the client's
         ELSE IF pos - 1 = 3 /\ (HasValidators \/ ex.rq.inm # 0 \/ ex.rq.ims # 0) THEN C304 \cup CFull
         ELSE IF ex.purpose = "reval" /\ HasValidators THEN {A304} \cup CFull
         ELSE CFull
    [] Family = "wb" ->
         IF pos - 1 = 1 THEN WStored
         ELSE IF pos - 1 = 2 THEN {[A0 EXCEPT !.ma = 100, !.vary = <<2>>]}   \* the other variant stays fresh
         ELSE IF ex.purpose = "reval" /\ HasValidators THEN W304 \cup WFull \cup (IF Thorough THEN {AErr} ELSE {})
         ELSE WFull

BgAnswers == IF HasValidators THEN (IF Family = "wb" THEN W304 \cup WFull \cup {AErr} ELSE {A304, A0, AErr}) ELSE {A0, AErr}

Init == Init0 /\ pos = 1

Next ==
  \/ pos <= LastPos /\ ~IsTick(pos) /\ ex.pc = "idle" /\ (\E rq \in Requests(pos) : Begin(rq)) /\ pos' = pos + 1
  \/ pos <= LastPos /\ IsTick(pos) /\ ex.pc = "idle" /\ (\E d \in Ticks(pos) : Tick(d)) /\ pos' = pos + 1
  \/ ex.pc = "origin" /\ (\E a \in Answers : Origin(a)) /\ UNCHANGED pos
  \/ ex.pc = "bgorigin" /\ (\E a \in BgAnswers : BgOrigin(a)) /\ UNCHANGED pos
  \/ Internal /\ UNCHANGED pos
  \/ pos = LastPos + 1 /\ ex.pc = "idle" /\ pos' = LastPos + 2
     /\ (Export => PrintT(ToJson([steps |-> hist])))
     /\ UNCHANGED <<now, idx, ent, ex, ctr, led, hist>>

Spec == Init /\ [][Next]_vars

NoViolation == Violated(led) = {}
RecordViolations == Violated(led) = {} \/ PrintT(<<"MVIOL", Violated(led), led.last.kind>>)
=============================================================================
