----------------------------- MODULE MC_faults -----------------------------
(***************************************************************************)
(* Fail-open (C10, and C13 / C18 under faults): store - tick - probe -      *)
(* tick - probe scenarios in which every store operation of the second and *)
(* third exchange may fail (or return undecodable bytes), singly and in    *)
(* pairs, combined with origin failures during validation and background   *)
(* revalidation.  Fault placement is a choice of the model, so the         *)
(* enumeration is exhaustive, not sampled.                                 *)
(***************************************************************************)
EXTENDS HttpCache

CONSTANTS Tier, Export

VARIABLE pos
vars == <<now, idx, ent, ex, ctr, led, hist, pos>>

Thorough == Tier = "thorough"

Rq0 == [ u |-> 0, m |-> "GET", range |-> 0, ma |-> None, mf |-> None, ms |-> None, sie |-> None, fl |-> <<>>,
         sel |-> <<0, 0, 0, 0>>, inm |-> 0, ims |-> 0, pragma |-> 0, ugap |-> 0, cancel |-> 0 ]

A0 == [ k |-> "full", st |-> 200, ccp |-> 1, ma |-> 5, fl |-> <<>>, swr |-> None, sie |-> None, ncf |-> 0,
        nodate |-> 0, dsk |-> 0, ex |-> None, exneg |-> 0, lm |-> None, age |-> None, etag |-> 1,
        vary |-> <<>>, vs |-> 0, lat |-> 0, hop |-> 0, loc1 |-> 0, locso |-> 0, cloc1 |-> 0, clocso |-> 0, upd |-> 0,
        body |-> 0, fr |-> 0 ]

Stored == { A0, [A0 EXCEPT !.swr = 10], [A0 EXCEPT !.sie = 20], [A0 EXCEPT !.fl = <<"must-revalidate">>], [A0 EXCEPT !.vary = <<2>>] }
          \cup (IF Thorough THEN { [A0 EXCEPT !.fl = <<"no-cache">>], [A0 EXCEPT !.etag = 0] } ELSE {})
Probes == { Rq0, [Rq0 EXCEPT !.fl = <<"only-if-cached">>], [Rq0 EXCEPT !.fl = <<"no-cache">>] }
          \cup (IF Thorough THEN { [Rq0 EXCEPT !.sie = 30], [Rq0 EXCEPT !.sel = <<0, 0, 1, 0>>], [Rq0 EXCEPT !.m = "POST"] } ELSE {})
A304 == [A0 EXCEPT !.k = "304", !.st = 304, !.ma = 50, !.upd = 1]
A200 == [A0 EXCEPT !.ma = 60, !.etag = 2]
AErr == [A0 EXCEPT !.k = "err"]
A503 == [A0 EXCEPT !.st = 503, !.ccp = 0, !.ma = None]
Answers == IF ex.purpose = "reval" /\ ex.stored.rep.etag > 0 THEN {A304, A200, AErr, A503} ELSE {A200, AErr, A503}
BgAnswers == {A304, A200, AErr, A503}

\* fault sets: none, every single operation, every pair (operations are numbered per exchange)
MaxOps == 5
FaultSets == {{}} \cup {{i} : i \in 1..MaxOps} \cup {{i, j} : i \in 1..MaxOps, j \in 1..MaxOps}

Init == Init0 /\ pos = 1

Next ==
  \/ pos = 1 /\ ex.pc = "idle" /\ Begin(Rq0) /\ pos' = 2
  \/ ex.pc = "origin" /\ (\E a \in (IF pos = 2 THEN Stored ELSE Answers) : Origin(a)) /\ UNCHANGED pos
  \/ ex.pc = "bgorigin" /\ (\E a \in BgAnswers : BgOrigin(a)) /\ UNCHANGED pos
  \/ pos \in {2, 4} /\ ex.pc = "idle" /\ (\E d \in (IF pos = 2 THEN {2, 7} ELSE {1}) : Tick(d)) /\ pos' = pos + 1
  \/ pos = 3 /\ ex.pc = "idle" /\ (\E rq \in Probes, f \in FaultSets : BeginF(rq, f)) /\ pos' = 4
  \/ pos = 5 /\ ex.pc = "idle" /\ (\E f \in (IF Thorough THEN {{}, {1}, {2}} ELSE {{}}) : BeginF(Rq0, f)) /\ pos' = 6
  \/ Internal /\ UNCHANGED pos
  \/ pos = 6 /\ ex.pc = "idle" /\ pos' = 7
     /\ (Export => PrintT(ToJson([steps |-> hist])))
     /\ UNCHANGED <<now, idx, ent, ex, ctr, led, hist>>

Spec == Init /\ [][Next]_vars

NoViolation == Violated(led) = {}
RecordViolations == Violated(led) = {} \/ PrintT(<<"MVIOL", Violated(led), led.last.kind>>)
=============================================================================
