----------------------------- MODULE MC_store -----------------------------
(***************************************************************************)
(* Storability table (C06) and the configuration product for byte          *)
(* faithfulness (C05): one exchange from a rich alphabet of request shapes *)
(* and origin answers, a tick, then a plain GET probe.                     *)
(*   "store" - status x response directives x explicit freshness x request *)
(*             shape (GET, Range, no-store, client conditional, HEAD,      *)
(*             POST) x complete / failing body                             *)
(*   "bytes" - framing x protocol x body class x hop-by-hop fields; the    *)
(*             model only says WHICH origin response the probe's reply     *)
(*             must be a copy of, the harness compares the bytes           *)
(***************************************************************************)
EXTENDS HttpCache

CONSTANTS Family, Tier, Export

VARIABLE pos
vars == <<now, idx, ent, ex, ctr, led, hist, pos>>

Thorough == Tier = "thorough"

Rq0 == [ u |-> 0, m |-> "GET", range |-> 0, ma |-> None, mf |-> None, ms |-> None, sie |-> None, fl |-> <<>>,
         sel |-> <<0, 0, 0, 0>>, inm |-> 0, ims |-> 0, pragma |-> 0, ugap |-> 0, cancel |-> 0 ]

A0 == [ k |-> "full", st |-> 200, ccp |-> 0, ma |-> None, fl |-> <<>>, swr |-> None, sie |-> None, ncf |-> 0,
        nodate |-> 0, dsk |-> 0, ex |-> None, exneg |-> 0, lm |-> None, age |-> None, etag |-> 1,
        vary |-> <<>>, vs |-> 0, lat |-> 0, hop |-> 0, loc1 |-> 0, locso |-> 0, cloc1 |-> 0, clocso |-> 0, upd |-> 0,
        body |-> 0, fr |-> 0, bodycut |-> 3 ]

Statuses == IF Thorough THEN {100, 101, 103, 200, 203, 204, 206, 226, 299, 300, 301, 302, 308, 404, 410, 451, 500, 501, 599}
            ELSE {101, 200, 204, 206, 299, 301, 302, 404, 500, 599}
FlagSets == IF Thorough THEN SUBSET {"no-store", "public", "must-understand", "private"}
            ELSE {{}, {"no-store"}, {"public"}, {"must-understand"}, {"no-store", "must-understand"}, {"public", "must-understand"}}
SetSeq(S) == LET RECURSIVE F(_) F(T) == IF T = {} THEN <<>> ELSE LET x == CHOOSE x \in T : TRUE IN <<x>> \o F(T \ {x}) IN F(S)
Explicit == {<<None, None>>, <<60, None>>, <<None, 60>>}

StoreAnswers ==
  { [A0 EXCEPT !.k = k, !.st = s, !.fl = SetSeq(f), !.ma = e[1], !.ex = e[2], !.ccp = IF f = {} /\ e[1] = None THEN 0 ELSE 1]
      : k \in {"full", "bodyerr"}, s \in Statuses, f \in FlagSets, e \in Explicit }

StoreRequests ==
  { Rq0, [Rq0 EXCEPT !.range = 1], [Rq0 EXCEPT !.fl = <<"no-store">>], [Rq0 EXCEPT !.inm = 9],
    [Rq0 EXCEPT !.m = "HEAD"], [Rq0 EXCEPT !.m = "POST"],
    \* only-if-cached on requests the cache never answers from its store
    [Rq0 EXCEPT !.fl = <<"only-if-cached">>, !.range = 1], [Rq0 EXCEPT !.fl = <<"only-if-cached">>, !.m = "POST"],
    [Rq0 EXCEPT !.fl = <<"only-if-cached">>, !.m = "HEAD"] }
  \cup (IF Thorough THEN {[Rq0 EXCEPT !.ims = 1], [Rq0 EXCEPT !.m = "PUT"], [Rq0 EXCEPT !.fl = <<"no-store">>, !.range = 1]} ELSE {})

A304c == [A0 EXCEPT !.k = "304", !.st = 304, !.ccp = 1, !.ma = 60]

Framings == IF Thorough THEN {0, 1, 2, 3, 4, 5} ELSE {0, 1, 2, 3, 4, 5}
Bodies   == IF Thorough THEN {0, 1, 2, 3, 4, 5, 6} ELSE {0, 1, 3, 4, 6}
BytesAnswers ==
  { [A0 EXCEPT !.ccp = 1, !.ma = 100, !.fr = f, !.body = b, !.hop = h, !.st = s, !.age = a]
      : f \in Framings, b \in Bodies, h \in {0, 1}, s \in (IF Thorough THEN {200, 203, 404} ELSE {200}), a \in {None, 7} }

A200 == [A0 EXCEPT !.ccp = 1, !.ma = 60, !.etag = 2]

FirstAnswers ==
  IF Family = "bytes" THEN BytesAnswers
  ELSE IF ex.rq.inm # 0 \/ ex.rq.ims # 0 THEN StoreAnswers \cup {A304c}
  ELSE StoreAnswers

Init == Init0 /\ pos = 1

Next ==
  \/ pos = 1 /\ ex.pc = "idle" /\ (\E rq \in (IF Family = "bytes" THEN {Rq0} ELSE StoreRequests) : Begin(rq)) /\ pos' = 2
  \/ ex.pc = "origin" /\ (\E a \in (IF pos = 2 THEN FirstAnswers ELSE {A200}) : Origin(a)) /\ UNCHANGED pos
  \/ ex.pc = "bgorigin" /\ BgOrigin(A200) /\ UNCHANGED pos
  \/ pos = 2 /\ ex.pc = "idle" /\ Tick(1) /\ pos' = 3
  \/ pos = 3 /\ ex.pc = "idle" /\ Begin(Rq0) /\ pos' = 4
  \/ Internal /\ UNCHANGED pos
  \/ pos = 4 /\ ex.pc = "idle" /\ pos' = 5
     /\ (Export => PrintT(ToJson([steps |-> hist])))
     /\ UNCHANGED <<now, idx, ent, ex, ctr, led, hist>>

Spec == Init /\ [][Next]_vars

NoViolation == Violated(led) = {}
RecordViolations == Violated(led) = {} \/ PrintT(<<"MVIOL", Violated(led), led.last.kind>>)
=============================================================================
