------------------------------ MODULE MC_swr ------------------------------
(***************************************************************************)
(* stale-while-revalidate timing (C20): a stored response is served stale  *)
(* at once while exactly one background request is sent; the background    *)
(* request is answered after 0 .. beyond-the-timeout seconds (or never),   *)
(* with 304 / full reply / error, under every timeout setting, with the    *)
(* caller's context cancelled before the call, right after the return, or  *)
(* not at all; a later probe shows what the background task left behind.   *)
(***************************************************************************)
EXTENDS HttpCache

CONSTANTS Tier, Export,
          SwrSetting      \* what is passed to WithSWRTimeout in milliseconds (0: option not given)

VARIABLE pos
vars == <<now, idx, ent, ex, ctr, led, hist, pos>>

Thorough == Tier = "thorough"
\* non-positive settings fall back to the default of 5 s
\* (a configuration file cannot hold a negative number: 999999 stands for -1000 ms)
Setting == IF SwrSetting = 999999 THEN -1000 ELSE SwrSetting
EffMs == IF Setting > 0 THEN Setting ELSE 5000
T == (EffMs + 999) \div 1000

Rq0 == [ u |-> 0, m |-> "GET", range |-> 0, ma |-> None, mf |-> None, ms |-> None, sie |-> None, fl |-> <<>>,
         sel |-> <<0, 0, 0, 0>>, inm |-> 0, ims |-> 0, pragma |-> 0, ugap |-> 0, cancel |-> 0 ]

A0 == [ k |-> "full", st |-> 200, ccp |-> 1, ma |-> 5, fl |-> <<>>, swr |-> 1000, sie |-> None, ncf |-> 0,
        nodate |-> 0, dsk |-> 0, ex |-> None, exneg |-> 0, lm |-> None, age |-> None, etag |-> 1,
        vary |-> <<>>, vs |-> 0, lat |-> 0, hop |-> 0, loc1 |-> 0, locso |-> 0, cloc1 |-> 0, clocso |-> 0, upd |-> 0,
        body |-> 0, fr |-> 0 ]

Stored == { A0, [A0 EXCEPT !.etag = 0, !.lm = 100], [A0 EXCEPT !.etag = 0], [A0 EXCEPT !.fl = <<"no-cache">>, !.ncf = 2] } \cup (IF Thorough THEN { [A0 EXCEPT !.lm = 100], [A0 EXCEPT !.vary = <<2>>] } ELSE {})
Lats == { l \in {0, 1, T - 1, T, T + 1, T + 4} : l >= 0 }
BgKinds == { [A0 EXCEPT !.k = "304", !.st = 304, !.ma = 50, !.upd = 1], [A0 EXCEPT !.ma = 60, !.etag = 2], [A0 EXCEPT !.k = "err"],
             [A0 EXCEPT !.st = 503, !.ccp = 0], [A0 EXCEPT !.k = "hang"] }
BgAnswers == { [a EXCEPT !.lat = l] : a \in BgKinds, l \in Lats }
A200 == [A0 EXCEPT !.ma = 60, !.etag = 3]

Init == Init0 /\ pos = 1

Next ==
  \/ pos = 1 /\ ex.pc = "idle" /\ Begin(Rq0) /\ pos' = 2
  \/ ex.pc = "origin" /\ (\E a \in (IF pos = 2 THEN Stored ELSE {A200}) : Origin(a)) /\ UNCHANGED pos
  \/ ex.pc = "bgorigin" /\ (\E a \in BgAnswers : BgOriginT(a, EffMs)) /\ UNCHANGED pos
  \/ pos = 2 /\ ex.pc = "idle" /\ Tick(7) /\ pos' = 3
  \/ pos = 3 /\ ex.pc = "idle" /\ (\E c \in {0, 1, 2, 3} : Begin([Rq0 EXCEPT !.cancel = c])) /\ pos' = 4
  \/ pos = 4 /\ ex.pc = "idle" /\ Tick(T + 6) /\ pos' = 5
  \/ pos = 5 /\ ex.pc = "idle" /\ Begin(Rq0) /\ pos' = 6
  \/ Internal /\ UNCHANGED pos
  \/ pos = 6 /\ ex.pc = "idle" /\ pos' = 7
     /\ (Export => PrintT(ToJson([steps |-> hist, opt |-> [swr |-> Setting, swrset |-> 1]])))
     /\ led' = OnEnd([led EXCEPT !.swr = EffMs], [ev |-> "end", t |-> now, leak_at_horizon |-> 0, nkeys |-> NKeys(idx, ent), maxidx |-> MaxIdx(idx)], 0)
     /\ UNCHANGED <<now, idx, ent, ex, ctr, hist>>

Spec == Init /\ [][Next]_vars

NoViolation == Violated(led) = {}
RecordViolations == Violated(led) = {} \/ PrintT(<<"MVIOL", Violated(led), led.last.kind>>)
=============================================================================
