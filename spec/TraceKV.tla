------------------------------ MODULE TraceKV ------------------------------
(***************************************************************************)
(* Acceptor for traces of store operations recorded from the real backends *)
(* (memory, file system, encrypted file system, reopened; through the      *)
(* driver.Conn and through the expapi HTTP handlers): every logged         *)
(* operation is applied to the reference map of KVStore and its outcome is *)
(* judged.  Monitors: C14 exact map, C15 no partial / mixed value after a  *)
(* cut or killed write, C17 encryption at rest.                            *)
(***************************************************************************)
EXTENDS KVStore, Json, TLC, SequencesExt

CONSTANT TraceFile
Trace == ndJsonDeserialize(TraceFile)

VARIABLES l, st, last, scn
vars == <<l, st, last, scn>>

NoObs == [kind |-> "none"]
ToSetOf(s) == {s[i] : i \in 1..Len(s)}
Pairs(s) == {<<s[i][1], s[i][2]>> : i \in 1..Len(s)}

TraceInit == l = 1 /\ st = InitStore(0, FALSE, FALSE, {}) /\ last = NoObs /\ scn = ""

Apply(e) ==
  CASE e.op = "set"     -> DoSet(st, e.k, e.v, e.ok = 1)
    [] e.op = "set_cut" -> DoCutSet(st, e.k, e.v, e.ok = 1)
    [] e.op = "set_kill" -> DoCutSet(st, e.k, e.v, FALSE)
    \* a Set that gave up at its operation timeout while the write went on: the old value, the new one or absent
    [] e.op = "set_slow" -> DoCutSet(st, e.k, e.v, e.ok = 1)
    [] e.op \in {"sched", "stress"} -> [st EXCEPT !.cand[e.k] = {Absent} \cup {v \in 0..8 : TRUE}, !.file[e.k] = UnkFile, !.orig[e.k] = UnkFile]
    [] e.op = "encstress" -> [st EXCEPT !.cand = [k \in DOMAIN st.cand |-> {e.v}],
                                        !.file = [k \in DOMAIN st.cand |-> UnkFile], !.orig = [k \in DOMAIN st.cand |-> UnkFile]]
    [] e.op \in {"del", "api_del"} -> DoDel(st, e.k, e.ok = 1)
    [] e.op = "tamper"  -> IF e.ok = 1 THEN DoTamperKey(st, e.k, e.how, e.k2, ToSetOf(e.cleank)) ELSE st
    [] e.op = "tamper_all" -> DoTamperAll(st, ToSetOf(e.cleank), e.rtclean = 1)
    [] e.op = "rt_store" -> IF e.ok = 1 THEN DoRtStore(st, e.v) ELSE st
    \* a response the transport fetched is what it has stored now
    [] e.op = "rt_get" -> IF e.ok = 1 /\ e.st >= 1 THEN DoRtStore(st, e.rv) ELSE st
    [] e.op = "reopen"  -> DoMode(st, "ok")
    [] e.op = "reopen_wrongkey" -> IF e.ok = 1 THEN DoMode(st, "wrongkey") ELSE st
    [] e.op = "reopen_plain" -> IF e.ok = 1 THEN DoMode(st, "plain") ELSE st
    [] OTHER -> st

TraceNext ==
  /\ l <= Len(Trace)
  /\ l' = l + 1
  /\ LET e == Trace[l] IN
     CASE e.ev = "reset" -> /\ st' = InitStore(e.nkeys, e.enc = 1, e.lister = 1, Pairs(e.pre))
                            /\ scn' = e.scn /\ last' = NoObs
       [] e.ev = "kv"    -> /\ st' = Apply(e) /\ last' = [kind |-> "kv", e |-> e, before |-> st, line |-> l] /\ UNCHANGED scn
       [] OTHER          -> /\ last' = NoObs /\ UNCHANGED <<st, scn>>

TraceSpec == TraceInit /\ [][TraceNext]_vars

IsKv == last.kind = "kv"
E == last.e
B == last.before

\* C14: exact, byte-preserving map
M14 == IsKv =>
  CASE E.op = "set" -> SetOK(B, E.k, E.ok = 1)
    [] E.op \in {"get", "api_get"} -> GetOK(B, E.k, E.ok = 1, E.nx = 1, E.rv, E.torn) /\ E.alias = 0
    [] E.op \in {"del", "api_del"} -> DelOK(B, E.k, E.ok = 1, E.nx = 1)
    [] E.op \in {"keys", "api_list"} -> (B.lister /\ B.mode = "ok") => KeysOK(B, E.p, E.ok = 1, ToSetOf(E.keys), E.unknown)
    [] E.op = "reopen" -> E.ok = 1
    [] OTHER -> TRUE

\* C15: after a write that was cut short or whose process died, a Get gives a complete old or new value, or absent
M15 ==
  /\ (IsKv /\ E.op = "get" /\ Cardinality(B.cand[E.k]) > 1 => GetOK(B, E.k, E.ok = 1, E.nx = 1, E.rv, E.torn))
  \* a replayed schedule of FsAtomic / a free-running stress: every Get gave a complete value that was Set, or absent;
  \* no Set, Get or Delete failed
  /\ (IsKv /\ E.op \in {"sched", "stress"} => E.torn = 0 /\ E.unknown = 0 /\ E.ok = 1 /\ (E.op = "stress" => E.st = 0 /\ E.absent = 0))

\* C17: encryption at rest
M17 == IsKv =>
  CASE E.op = "set" -> (B.enc /\ B.mode # "plain") => (E.plain = 0 /\ E.samect = 0)
    [] E.op = "rt_store" -> (B.enc /\ B.mode # "plain") => E.plain = 0
    [] E.op = "rt_get" -> RtGetOK(B, E.ok = 1, E.rv, E.st)
    [] E.op = "encstress" -> E.samect = 0 /\ E.ok = 1
    [] E.op = "get" -> GetSecretOK(B, E.k, E.ok = 1, E.rv)
    [] E.op = "open_enc" -> (E.expect = 0 => E.ok = 0) /\ (E.expect = 1 => E.ok = 1 /\ E.plain = 0)
    [] OTHER -> TRUE

Mons == { <<"C14", M14>>, <<"C15", M15>>, <<"C17", M17>> }
Bad == { p[1] : p \in { q \in Mons : ~q[2] } }

NT == IF ~IsKv THEN {} ELSE
      (IF E.op \in {"get", "api_get", "del", "api_del", "keys", "api_list"} THEN {"C14"} ELSE {})
      \cup (IF (E.op = "get" /\ Cardinality(B.cand[E.k]) > 1) \/ E.op \in {"sched", "stress"} THEN {"C15"} ELSE {})
      \cup (IF (B.enc /\ E.op \in {"set", "get"} /\ (E.op = "set" \/ Tampered(B, E.k) \/ B.mode # "ok" \/ B.file[E.k].wm \notin {"ok", "none"}))
               \/ (B.enc /\ E.op = "rt_get" /\ B.rt # "none" /\ (B.rt = "tampered" \/ B.rtwm # B.mode))
               \/ E.op \in {"open_enc", "encstress"} THEN {"C17"} ELSE {})

Record ==
  /\ (Bad = {} \/ ( /\ PrintT(<<"VIOL", scn, last.line, Bad, E.op>>)
                    /\ TLCSet(1, TLCGet(1) \cup {<<scn, last.line, Bad>>}) ))
  /\ (NT = {} \/ TLCSet(2, TLCGet(2) \cup {<<scn, last.line, NT>>}))

ASSUME TLCSet(1, {}) /\ TLCSet(2, {})

Done ==
  /\ PrintT(<<"STATS", Len(Trace), Cardinality(TLCGet(2)), Cardinality(TLCGet(1))>>)
  /\ \A p \in {"C14", "C15", "C17"} : PrintT(<<"NT", p, Cardinality({x \in TLCGet(2) : p \in x[3]})>>)
  /\ TLCGet("stats").diameter = Len(Trace) + 1
=============================================================================
