------------------------------ MODULE FsLayout ------------------------------
(***************************************************************************)
(* The design of fscache's mapping from keys to files (filenamer.go) at    *)
(* model scale (C14): a key is encoded (identity here), names longer than  *)
(* Threshold are cut into fragments of Frag characters, all fragments but  *)
(* the last become directories.  With DirMarker = FALSE (the layout of the *)
(* pinned tree) a directory can have the name of another key's file; TLC   *)
(* finds the collision.  With DirMarker = TRUE (the repaired layout:       *)
(* directory names end with a character no file name contains) every       *)
(* operation on every key succeeds and the tree refines the map.           *)
(***************************************************************************)
EXTENDS Integers, Sequences, FiniteSets, TLC

CONSTANTS DirMarker,     \* BOOLEAN
          Threshold, Frag, MaxLen

Alphabet == {"a", "b"}
\* keys: all strings over the alphabet up to length 5, as sequences of characters
RECURSIVE Strs(_)
Strs(n) == IF n = 0 THEN {<<>>} ELSE LET S == Strs(n - 1) IN S \cup {Append(s, c) : s \in {t \in S : Len(t) = n - 1}, c \in Alphabet}
Keys == Strs(MaxLen) \ {<<>>}

\* a name is <<characters, isDirectoryLevel>>; without the marker the flag is not part of the name
Name(chars, isdir) == IF DirMarker THEN <<chars, isdir>> ELSE <<chars, FALSE>>
Step == IF DirMarker THEN Frag - 1 ELSE Frag
RECURSIVE Cut(_)
Cut(s) == IF Len(s) <= Step THEN <<Name(s, FALSE)>>
          ELSE <<Name(SubSeq(s, 1, Step), TRUE)>> \o Cut(SubSeq(s, Step + 1, Len(s)))
PathOf(k) == IF Len(k) <= Threshold THEN <<Name(k, FALSE)>> ELSE Cut(k)

VARIABLES files,   \* set of paths that are regular files (one per stored key)
          dirs,    \* set of paths that are directories
          map      \* the reference: set of keys that are present
vars == <<files, dirs, map>>

Prefixes(p) == {SubSeq(p, 1, i) : i \in 1..(Len(p) - 1)}

CanSet(k) == LET p == PathOf(k) IN (Prefixes(p) \cap files = {}) /\ p \notin dirs
\* Get of an absent key reports "does not exist", not some other error (a file in the way)
AbsentIsNotExist(k) == k \notin map => (Prefixes(PathOf(k)) \cap files = {})

Init == files = {} /\ dirs = {} /\ map = {}
Set(k) == /\ CanSet(k)
          /\ files' = files \cup {PathOf(k)} /\ dirs' = dirs \cup Prefixes(PathOf(k)) /\ map' = map \cup {k}
Delete(k) == /\ k \in map
             /\ files' = files \ {PathOf(k)} /\ map' = map \ {k} /\ UNCHANGED dirs
Next == \E k \in Keys : Set(k) \/ Delete(k)
Spec == Init /\ [][Next]_vars

\* bound the exploration: at most three keys present
Small == Cardinality(map) <= 2 /\ Cardinality(dirs) <= 4

Refines == files = {PathOf(k) : k \in map} /\ Cardinality(files) = Cardinality(map)
NoFailure == \A k \in Keys : CanSet(k) /\ AbsentIsNotExist(k)
=============================================================================
