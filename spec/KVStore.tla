------------------------------ MODULE KVStore ------------------------------
(***************************************************************************)
(* The reference behaviour of a backend (C14, C15, C17): an exact map from *)
(* keys to values.  The state keeps, per key, the SET of values a Get may  *)
(* still return: a singleton after a completed Set or Delete, several      *)
(* after a Set that was cut short by a write failure or a process kill     *)
(* (the old value, the new one, or absent - never a mixture).  Absent is   *)
(* the value -1.  Keys are small integers; which key is a prefix of which  *)
(* is a relation given by the scenario.                                    *)
(*                                                                         *)
(* For encryption at rest (C17) the state also keeps what is known about   *)
(* the FILE that holds each key: for which key it was written (own), with  *)
(* which value, under which store key (wm = the mode of the store when it  *)
(* was written: "ok" = the right key, "wrongkey" = another key, "plain" =  *)
(* no encryption), a serial number, and whether somebody damaged it behind *)
(* the store's back (bit flip, truncation, extension).  Copying another    *)
(* key's file over it (swap) copies that record.  orig is the file as the  *)
(* store itself wrote it last.                                             *)
(***************************************************************************)
EXTENDS Integers, FiniteSets, Sequences

Absent == -1

NoFile  == [own |-> -1, v |-> -1, n |-> 0, wm |-> "none", dmg |-> FALSE]
\* a write that was cut short or failed: nothing is known about the file
UnkFile == [own |-> -2, v |-> -1, n |-> 0, wm |-> "none", dmg |-> FALSE]

\* st = [cand: key -> set of values, mode: "ok" | "wrongkey" | "plain", enc: BOOLEAN, lister: BOOLEAN,
\*       pre: set of <<prefix key, key>>, file, orig: key -> file record, ctr: serial of the last write,
\*       rt: "none" | "stored" | "tampered", rtv: value the transport stored, rtwm: mode under which it was stored]
InitStore(nkeys, enc, lister, pre) ==
  [ cand |-> [k \in 0..(nkeys - 1) |-> {Absent}], mode |-> "ok", enc |-> enc, lister |-> lister, pre |-> pre,
    file |-> [k \in 0..(nkeys - 1) |-> NoFile], orig |-> [k \in 0..(nkeys - 1) |-> NoFile], ctr |-> 0,
    rt |-> "none", rtv |-> -1, rtwm |-> "none" ]

Present(st, k)   == st.cand[k] # {Absent}
MayBeAbsent(st, k) == Absent \in st.cand[k]
\* the file is not what the store wrote last
Tampered(st, k) == st.file[k] # st.orig[k]
\* an encrypted store can decrypt the file: written for this key, under the key in use, undamaged
Decryptable(st, k) == LET f == st.file[k] IN f.own = k /\ ~f.dmg /\ f.wm = st.mode
\* the map contract covers this key now: nobody touched the file and the store is the one that wrote it
Covered(st, k) == ~Tampered(st, k) /\ st.mode = "ok" /\ st.file[k].wm \in {"ok", "none"}

\* transitions (what the map looks like after an operation with the given outcome)
Written(st, k, v) == [own |-> k, v |-> v, n |-> st.ctr + 1, wm |-> st.mode, dmg |-> FALSE]
DoSet(st, k, v, ok) ==
  IF ok THEN [st EXCEPT !.cand[k] = {v}, !.file[k] = Written(st, k, v), !.orig[k] = Written(st, k, v), !.ctr = st.ctr + 1]
  ELSE [st EXCEPT !.cand[k] = st.cand[k] \cup {v}, !.file[k] = UnkFile, !.orig[k] = UnkFile]
DoCutSet(st, k, v, ok) ==
  IF ok THEN DoSet(st, k, v, TRUE)
  ELSE [st EXCEPT !.cand[k] = st.cand[k] \cup {v, Absent}, !.file[k] = UnkFile, !.orig[k] = UnkFile]
DoDel(st, k, ok) == IF ok THEN [st EXCEPT !.cand[k] = {Absent}, !.file[k] = NoFile, !.orig[k] = NoFile] ELSE st
Damaged(f) == [f EXCEPT !.dmg = TRUE]
DoTamper(st, k, how, k2) ==
  IF how = "swap" /\ k2 \in DOMAIN st.file /\ st.file[k2].own >= 0 /\ st.file[k].own >= 0
    THEN [st EXCEPT !.file[k] = st.file[k2]]
  ELSE [st EXCEPT !.file[k] = Damaged(st.file[k])]
\* every file under the store directory modified; clean = the keys whose file is, byte for byte, what the store wrote
\* (two modifications can cancel out), rtclean = the same for the files of the transport
DoTamperAll(st, clean, rtclean) ==
  [st EXCEPT !.file = [k \in DOMAIN st.file |-> IF st.file[k] = NoFile THEN NoFile
                                               ELSE IF k \in clean THEN st.orig[k] ELSE Damaged(st.file[k])],
             !.rt = IF st.rt = "none" THEN "none" ELSE IF rtclean THEN "stored" ELSE "tampered"]
\* one key's file modified behind the store's back
DoTamperKey(st, k, how, k2, clean) ==
  IF k \in clean THEN [st EXCEPT !.file[k] = st.orig[k]] ELSE DoTamper(st, k, how, k2)
DoMode(st, m) == [st EXCEPT !.mode = m]
\* the transport stored a response whose body is value v / fetched a response because it could not use the stored one
DoRtStore(st, v) == [st EXCEPT !.rt = "stored", !.rtv = v, !.rtwm = st.mode]

\* judgements (is the observed outcome one the map allows?)
SetOK(st, k, ok) == ok \/ st.mode # "ok"
\* map behaviour of Get (C14, C15); a file modified behind the store's back, or a store opened
\* with another key, is outside the map contract
GetOK(st, k, ok, nx, rv, torn) ==
  Covered(st, k) =>
       /\ torn = 0
       /\ (ok => rv \in st.cand[k] \ {Absent})
       /\ (~ok => nx /\ MayBeAbsent(st, k))
\* confidentiality / integrity behaviour of Get under encryption (C17): what an encrypting store returns is
\* exactly what was encrypted for this key under this store key; a plain reader of encrypted files sees no value
GetSecretOK(st, k, ok, rv) ==
  (st.enc /\ st.file[k].own >= 0) =>
       LET f == st.file[k] IN
       IF st.mode = "plain" THEN (f.wm # "plain" => (ok => rv < 0))
       ELSE /\ (~Decryptable(st, k) => ~ok)
            /\ (Decryptable(st, k) /\ ok => rv = f.v)
DelOK(st, k, ok, nx) ==
  IF Tampered(st, k) \/ st.mode # "ok" THEN TRUE
  ELSE (ok => Present(st, k)) /\ (~ok => nx /\ MayBeAbsent(st, k))
KeysOK(st, p, ok, ks, unknown) ==
  /\ ok /\ unknown = 0
  /\ \A k \in ks : (p = -1 \/ <<p, k>> \in st.pre) /\ Present(st, k)
  /\ \A k \in DOMAIN st.cand : (p = -1 \/ <<p, k>> \in st.pre) /\ ~MayBeAbsent(st, k) => k \in ks
\* the transport on top of an encrypting store (C17): stored files that were altered, or that were written under
\* another key, are a miss - the stored body is not served and the origin is asked
RtGetOK(st, ok, rv, ncalls) ==
  (st.enc /\ st.mode # "plain" /\ st.rt # "none" /\ (st.rt = "tampered" \/ st.rtwm # st.mode)) =>
       ok /\ rv # st.rtv /\ ncalls >= 1
\* a usable AES key has 16, 24 or 32 bytes
UsableKeyLen(n) == n \in {16, 24, 32}
=============================================================================
