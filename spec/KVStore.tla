------------------------------ MODULE KVStore ------------------------------
(***************************************************************************)
(* The reference behaviour of a backend (C14, C15, C17): an exact map from *)
(* keys to values.  The state keeps, per key, the SET of values a Get may  *)
(* still return: a singleton after a completed Set or Delete, several      *)
(* after a Set that was cut short by a write failure or a process kill     *)
(* (the old value, the new one, or absent - never a mixture).  Absent is   *)
(* the value -1.  Keys are small integers; which key is a prefix of which  *)
(* is a relation given by the scenario.                                    *)
(***************************************************************************)
EXTENDS Integers, FiniteSets, Sequences

Absent == -1

\* st = [cand: key -> set of values, tampered: set of keys, mode: "ok" | "wrongkey" | "plain", enc: BOOLEAN,
\*       lister: BOOLEAN, pre: set of <<prefix key, key>>]
InitStore(nkeys, enc, lister, pre) ==
  [ cand |-> [k \in 0..(nkeys - 1) |-> {Absent}], tampered |-> {}, mode |-> "ok", enc |-> enc, lister |-> lister, pre |-> pre ]

Present(st, k)   == st.cand[k] # {Absent}
MayBeAbsent(st, k) == Absent \in st.cand[k]
Readable(st, k)  == ~(st.enc /\ (k \in st.tampered \/ st.mode # "ok"))

\* transitions (what the map looks like after an operation with the given outcome)
DoSet(st, k, v, ok) ==
  IF ok THEN [st EXCEPT !.cand[k] = {v}, !.tampered = st.tampered \ {k}]
  ELSE [st EXCEPT !.cand[k] = st.cand[k] \cup {v}]
DoCutSet(st, k, v, ok) ==
  IF ok THEN [st EXCEPT !.cand[k] = {v}, !.tampered = st.tampered \ {k}]
  ELSE [st EXCEPT !.cand[k] = st.cand[k] \cup {v, Absent}]
DoDel(st, k, ok) == IF ok THEN [st EXCEPT !.cand[k] = {Absent}, !.tampered = st.tampered \ {k}] ELSE st
DoTamper(st, k) == [st EXCEPT !.tampered = st.tampered \cup {k}]
DoMode(st, m) == [st EXCEPT !.mode = m]

\* judgements (is the observed outcome one the map allows?)
SetOK(st, k, ok) == ok \/ st.mode # "ok"
\* map behaviour of Get (C14, C15); a file modified behind the store's back, or a store opened
\* with another key, is outside the map contract
GetOK(st, k, ok, nx, rv, torn) ==
  (k \notin st.tampered /\ st.mode = "ok") =>
       /\ torn = 0
       /\ (ok => rv \in st.cand[k] \ {Absent})
       /\ (~ok => nx /\ MayBeAbsent(st, k))
\* confidentiality / integrity behaviour of Get under encryption (C17)
GetSecretOK(st, k, ok, rv) ==
  (st.enc /\ Present(st, k)) =>
       /\ (k \in st.tampered => ~ok)
       /\ (st.mode = "wrongkey" => ~ok)
       /\ (st.mode = "plain" => (ok => rv < 0))
DelOK(st, k, ok, nx) ==
  IF k \in st.tampered \/ st.mode # "ok" THEN TRUE
  ELSE (ok => Present(st, k)) /\ (~ok => nx /\ MayBeAbsent(st, k))
KeysOK(st, p, ok, ks, unknown) ==
  /\ ok /\ unknown = 0
  /\ \A k \in ks : (p = -1 \/ <<p, k>> \in st.pre) /\ Present(st, k)
  /\ \A k \in DOMAIN st.cand : (p = -1 \/ <<p, k>> \in st.pre) /\ ~MayBeAbsent(st, k) => k \in ks
=============================================================================
