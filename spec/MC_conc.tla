------------------------------ MODULE MC_conc ------------------------------
(***************************************************************************)
(* Interleavings of two concurrent requests (and the background            *)
(* revalidation a stale-while-revalidate serve leaves behind) on one       *)
(* transport, at the granularity of store operations and origin calls      *)
(* (C16, and the order-independent parts of C01-C04, C07, C10, C11, C18).  *)
(*                                                                         *)
(* The transport model of HttpCache has one exchange variable; here two    *)
(* exchanges exist and `ex` holds the one that is running: Switch parks it *)
(* and resumes the other.  Switching is only offered where the running     *)
(* exchange is about to touch shared state (a store operation or an origin *)
(* call) - steps of pure computation cannot be observed by the other side. *)
(* A prefix stores two variants, a tick lets them expire, the two          *)
(* concurrent requests run in every interleaving, two probes follow.  The  *)
(* order in which the exchanges performed their gated operations is        *)
(* exported with every behaviour; the harness replays it by gating the     *)
(* goroutines of the real transport at exactly those operations.           *)
(***************************************************************************)
EXTENDS HttpCache

CONSTANTS Tier, Export

VARIABLES pos, parked, g0
vars == <<now, idx, ent, ex, ctr, led, hist, pos, parked, g0>>

Thorough == Tier = "thorough"

Rq0 == [ u |-> 0, m |-> "GET", range |-> 0, ma |-> None, mf |-> None, ms |-> None, sie |-> None, fl |-> <<>>,
         sel |-> <<0, 0, 1, 0>>, inm |-> 0, ims |-> 0, pragma |-> 0, ugap |-> 0, cancel |-> 0 ]

A0 == [ k |-> "full", st |-> 200, ccp |-> 1, ma |-> 5, fl |-> <<>>, swr |-> None, sie |-> None, ncf |-> 0,
        nodate |-> 0, dsk |-> 0, ex |-> None, exneg |-> 0, lm |-> None, age |-> None, etag |-> 1,
        vary |-> <<2>>, vs |-> 0, lat |-> 0, hop |-> 0, loc1 |-> 0, locso |-> 0, cloc1 |-> 0, clocso |-> 0, upd |-> 0,
        body |-> 0, fr |-> 0 ]

Stored1 == { [A0 EXCEPT !.swr = w] : w \in {None, 30} }
Stored2 == { [A0 EXCEPT !.ma = 100] }
Req1 == { Rq0 } \cup (IF Thorough THEN { [Rq0 EXCEPT !.fl = <<"no-cache">>] } ELSE {})
Req2 == { Rq0, [Rq0 EXCEPT !.sel = <<0, 0, 2, 0>>], [Rq0 EXCEPT !.m = "POST", !.sel = <<0, 0, 0, 0>>] }
        \cup (IF Thorough THEN { [Rq0 EXCEPT !.u = 1], [Rq0 EXCEPT !.sel = <<0, 0, 3, 0>>], [Rq0 EXCEPT !.m = "DELETE", !.sel = <<0, 0, 0, 0>>] } ELSE {})
A304 == [A0 EXCEPT !.k = "304", !.st = 304, !.ma = 50, !.upd = 1]
A200 == [A0 EXCEPT !.ma = 60, !.etag = 2]
APost == [A0 EXCEPT !.ccp = 0, !.ma = None, !.etag = 0, !.vary = <<>>]
Answers == IF ex.purpose = "bypass" THEN {APost}
           ELSE IF ex.purpose = "reval" THEN {A304, A200}
           ELSE {A200}
BgAnswers == {A304, A200}

\* the running exchange is at a point where it is about to touch shared state
AtGate == ex.pc \in {"getrefs", "getent", "origin", "setent", "setidx", "inv", "bgorigin", "bggetrefs", "bggetent", "bgsetent", "bgsetidx"}
Finished(e) == e.pc = "idle"

Init == Init0 /\ pos = 1 /\ parked = Idle /\ g0 = 0

SeqReq(rq, anset) == /\ ex.pc = "idle" /\ parked = Idle /\ Begin(rq) /\ UNCHANGED <<parked, g0>>

Next ==
  \* prefix: two variants are stored, then they expire (the first one, at least)
  \/ pos = 1 /\ SeqReq(Rq0, Stored1) /\ pos' = 2
  \/ pos = 3 /\ SeqReq([Rq0 EXCEPT !.sel = <<0, 0, 2, 0>>], Stored2) /\ pos' = 4
  \/ pos \in {2, 4, 9} /\ ex.pc = "origin" /\ parked.pc = "idle"
       /\ (\E a \in (IF pos = 2 THEN Stored1 ELSE IF pos = 4 THEN Stored2 ELSE Answers) : Origin(a)) /\ UNCHANGED <<pos, parked, g0>>
  \/ pos \in {2, 4, 9} /\ ex.pc = "bgorigin" /\ (\E a \in BgAnswers : BgOrigin(a)) /\ UNCHANGED <<pos, parked, g0>>
  \/ pos \in {2, 4} /\ ex.pc = "idle" /\ Tick(IF pos = 2 THEN 0 ELSE 7) /\ pos' = pos + 1 /\ UNCHANGED <<parked, g0>>
  \* the concurrent phase: both exchanges begin (the second one is parked), then every interleaving
  \/ pos = 5 /\ ex.pc = "idle" /\ (\E rq \in Req1 : Begin(rq)) /\ pos' = 6 /\ g0' = Len(led.gseq) /\ UNCHANGED parked
  \/ pos = 6 /\ parked = Idle /\ AtGate
       /\ parked' = ex /\ ex' = Idle /\ pos' = 61 /\ UNCHANGED <<now, idx, ent, ctr, led, hist, g0>>
  \/ pos = 61 /\ (\E rq \in Req2 : Begin(rq)) /\ pos' = 7 /\ UNCHANGED <<parked, g0>>
  \/ pos = 7 /\ ex.pc = "origin" /\ (\E a \in Answers : Origin(a)) /\ UNCHANGED <<pos, parked, g0>>
  \/ pos = 7 /\ ex.pc = "bgorigin" /\ (\E a \in BgAnswers : BgOrigin(a)) /\ UNCHANGED <<pos, parked, g0>>
  \/ pos = 7 /\ ~Finished(parked) /\ (AtGate \/ Finished(ex))             \* Switch
       /\ parked' = ex /\ ex' = parked /\ UNCHANGED <<now, idx, ent, ctr, led, hist, pos, g0>>
  \/ pos = 7 /\ Finished(ex) /\ Finished(parked) /\ Tick(1) /\ pos' = 8 /\ UNCHANGED <<parked, g0>>
  \* two probes show what the concurrent phase left behind
  \/ pos = 8 /\ SeqReq(Rq0, {}) /\ pos' = 9
  \/ pos = 9 /\ ex.pc = "idle" /\ pos' = 10 /\ UNCHANGED <<now, idx, ent, ex, ctr, led, hist, parked, g0>>
  \/ pos = 10 /\ ex.pc = "idle" /\ parked = Idle /\ Begin([Rq0 EXCEPT !.sel = <<0, 0, 2, 0>>]) /\ pos' = 11 /\ UNCHANGED <<parked, g0>>
  \/ pos = 11 /\ ex.pc = "origin" /\ (\E a \in Answers : Origin(a)) /\ UNCHANGED <<pos, parked, g0>>
  \/ pos = 11 /\ ex.pc = "bgorigin" /\ (\E a \in BgAnswers : BgOrigin(a)) /\ UNCHANGED <<pos, parked, g0>>
  \/ pos \in {2, 4, 6, 7, 8, 9, 10, 11} /\ Internal /\ UNCHANGED <<pos, parked, g0>>
  \/ pos = 11 /\ ex.pc = "idle" /\ pos' = 12
     /\ (Export => PrintT(ToJson([steps |-> hist, gseq |-> SubSeq(led.gseq, g0 + 1, Len(led.gseq))])))
     /\ UNCHANGED <<now, idx, ent, ex, ctr, led, hist, parked, g0>>

Spec == Init /\ [][Next]_vars

\* while two exchanges overlap, the order-dependent obligations are off (as for recorded traces)
NoViolation == Violated([led EXCEPT !.hadconc = (pos >= 6)]) = {}
RecordViolations == Violated([led EXCEPT !.hadconc = (pos >= 6)]) = {} \/ PrintT(<<"MVIOL", Violated([led EXCEPT !.hadconc = (pos >= 6)]), led.last.kind>>)
=============================================================================
