----------------------------- MODULE HttpCache -----------------------------
(***************************************************************************)
(* Implementation-shaped model of the bartventer/httpcache transport       *)
(* (roundtripper.go and internal/): one action per store operation,        *)
(* origin call and return, in the order of the code.  Deliberate           *)
(* deviations that were found in the pinned tree are named switches in     *)
(* Defects: with Defects = {} the model is the behaviour the repaired      *)
(* tree is meant to have; switching one on must make TLC refute the        *)
(* matching monitor (sensitivity suite).                                   *)
(*                                                                         *)
(* Every action emits the same event record the harness logs for the real  *)
(* code and threads it through the ledger of Props, so the monitors that   *)
(* judge recorded executions of the code are literally the invariants of   *)
(* this model.                                                             *)
(***************************************************************************)
EXTENDS Props, SequencesExt, Json

CONSTANTS Defects        \* set of named deviations that are switched on

VARIABLES
  now,      \* virtual clock (same scale as the harness log: TBase + seconds)
  idx,      \* URI class -> sequence of refs   (the variant index, one store key per URI)
  ent,      \* entry id -> stored entry         (one store key per id)
  ex,       \* the exchange in progress
  ctr,      \* counters: tokens, tags, exchanges, store keys
  led,      \* ghost: ledger of Props
  hist      \* ghost: the scenario so far, as the harness consumes it

TBase == 500000000
mvars == <<now, idx, ent, ex, ctr, led, hist>>

Idle == [pc |-> "idle"]
NoEnt == [none |-> TRUE]

(***************************************************************************)
(* rendering an abstract answer at time t (harness: World.buildResponse)   *)
(***************************************************************************)
RepOf(a, t0, t1) ==
  LET date == IF a.nodate = 1 THEN t1 ELSE t1 - a.dsk IN
  [ st |-> IF a.k = "304" THEN 304 ELSE a.st,
    ccp |-> a.ccp, ma |-> IF a.ccp = 1 THEN a.ma ELSE None, fl |-> IF a.ccp = 1 THEN a.fl ELSE <<>>,
    swr |-> IF a.ccp = 1 THEN a.swr ELSE None, sie |-> IF a.ccp = 1 THEN a.sie ELSE None,
    ncf |-> IF a.ccp = 1 THEN a.ncf ELSE 0,
    date |-> date, dateg |-> 1 - a.nodate,
    exp |-> IF a.ex = None THEN None ELSE IF a.ex = Invalid THEN Invalid
            ELSE IF a.exneg = 1 THEN date - a.ex ELSE IF a.ex >= CAP THEN 2000000000 ELSE date + a.ex,
    lm |-> IF a.lm = None THEN None ELSE date - a.lm,
    age |-> a.age, etag |-> a.etag, vary |-> a.vary, vs |-> a.vs,
    reqT |-> t0, respT |-> t1, hop |-> a.hop,
    locu |-> a.loc1 - 1, locso |-> IF a.loc1 > 0 THEN a.locso ELSE 0,
    clocu |-> a.cloc1 - 1, clocso |-> IF a.cloc1 > 0 THEN a.clocso ELSE 0,
    upd |-> a.upd ]

\* the stored record after a 304: merged header fields, the 304's times, the old status
MergedRep(old, n) ==
  LET m == Merge(old, n) IN
  [ st |-> m.st, ccp |-> m.ccp, ma |-> m.ma, fl |-> m.fl, swr |-> m.swr, sie |-> m.sie, ncf |-> m.ncf,
    date |-> m.date, dateg |-> 1, exp |-> m.exp, lm |-> m.lm, age |-> IF n.age # None THEN n.age ELSE old.age,
    etag |-> m.etag, vary |-> m.vary, vs |-> m.vs, reqT |-> m.reqT, respT |-> m.respT, hop |-> 0,
    locu |-> -1, locso |-> 0, clocu |-> -1, clocso |-> 0, upd |-> n.upd ]

\* ncf: 0 = no-cache without argument, 1 = no-cache="X-Secret", 2 = no-cache="ETag, X-Secret" (a validator is among the named fields)
Qualified(r) == r.ccp = 1 /\ Has(r, "no-cache") /\ r.ncf >= 1
NamesEtag(r) == Qualified(r) /\ r.ncf = 2
HOf(r) == [ ccp |-> r.ccp, ma |-> r.ma, fl |-> r.fl, swr |-> r.swr, sie |-> r.sie, ncf |-> r.ncf,
            date |-> r.date, exp |-> r.exp, lm |-> r.lm, etag |-> r.etag, vary |-> r.vary, vs |-> r.vs,
            unk |-> 0, secret |-> 1 ]
\* header meaning of a response served from the store without validation on the
\* stale paths: fields named by a qualified no-cache are stripped there too
StoreH(r) == [HOf(r) EXCEPT !.secret = IF Qualified(r) /\ "keep_qualified_fields_on_stale_paths" \notin Defects THEN 0 ELSE 1,
                             !.etag = IF NamesEtag(r) /\ "keep_qualified_fields_on_stale_paths" \notin Defects THEN 0 ELSE r.etag]
NoH == [ ccp |-> 0, ma |-> None, fl |-> <<>>, swr |-> None, sie |-> None, ncf |-> 0,
         date |-> None, exp |-> None, lm |-> None, etag |-> 0, vary |-> <<>>, vs |-> 0, unk |-> 0, secret |-> 0 ]

(***************************************************************************)
(* code-shaped decisions (internal/freshness.go, roundtripper.go)          *)
(***************************************************************************)
CodeHeuristicStatus == {200, 203, 206, 301, 304, 404, 405, 410, 414, 501, 308}
CodeUnderstood      == {200, 203, 301, 304, 404, 405, 410, 414, 501, 308}

HeurCode(r) == IF r.lm >= 0 /\ r.lm < r.date THEN (r.date - r.lm + 5) \div 10 ELSE 0

CodeLife(r) ==
  LET hasMa == r.ccp = 1 /\ r.ma # None
      maVal == IF r.ccp = 1 /\ r.ma >= 0 THEN r.ma ELSE 0
      fall  == IF "maxage0_fallthrough" \in Defects THEN maVal = 0 ELSE ~hasMa
  IN IF ~fall THEN maVal
     ELSE IF r.exp >= 0 /\ r.exp > r.date THEN Sat(r.exp - r.date)
     ELSE IF r.exp = None /\ (r.st \in CodeHeuristicStatus \/ Has(r, "public")) THEN HeurCode(r)
     ELSE 0

CodeAge(r, t) == CurrentAge(r, t)

\* CalculateFreshness
\* (a request max-age=0 is answered before anything else is looked at: stale, whatever max-stale says; the pinned
\* tree also reported the age as 0 from here)
CodeFresh(r, rq, t) ==
  IF rq.ma = 0
    THEN (IF "reqmaxage0_shortcut" \in Defects THEN [stale |-> TRUE, age |-> 0, life |-> 0, zero |-> TRUE]
          ELSE [stale |-> TRUE, age |-> CodeAge(r, t), life |-> 0, zero |-> FALSE])
  ELSE
  LET age  == CodeAge(r, t)
      l0   == CodeLife(r)
      life == IF rq.ma >= 0 THEN MinI(l0, rq.ma) ELSE l0
      ms   == IF rq.ms = NoArg THEN CAP ELSE IF rq.ms >= 0 THEN rq.ms ELSE 0
      st0  == age >= life
      st1  == IF st0 /\ ms > 0 /\ age < life + ms THEN FALSE ELSE st0
  IN IF rq.mf > 0 /\ life - age < rq.mf THEN [stale |-> TRUE, age |-> age, life |-> life, zero |-> FALSE]
     ELSE [stale |-> st1, age |-> age, life |-> life, zero |-> FALSE]

\* handleCacheHit: which way does the hit path go
Decide(r, rq, t) ==
  LET f   == CodeFresh(r, rq, t)
      rnc == Has(rq, "no-cache")
      oic == Has(rq, "only-if-cached")
      mnc == r.ccp = 1 /\ Has(r, "no-cache") /\ r.ncf = 0
      mr  == r.ccp = 1 /\ Has(r, "must-revalidate")
      imm == r.ccp = 1 /\ Has(r, "immutable")
      age == CodeAge(r, t)
      own == age - CodeLife(r)
      inSwrPinned == r.ccp = 1 /\ r.swr >= 0 /\ f.stale /\ f.age - f.life >= 0 /\ f.age - f.life < r.swr
      inSwr == r.ccp = 1 /\ r.swr >= 0 /\ f.stale /\ own >= 0 /\ own < r.swr /\ (rq.ma < 0 \/ age <= rq.ma)
  IN IF "pinned_order" \in Defects THEN
          IF ~f.stale /\ imm /\ ~rnc THEN "serve"
          ELSE IF (f.stale /\ mr) \/ mnc THEN "revalidate"
          ELSE IF oic \/ (~f.stale /\ ~rnc) THEN "serve"
          ELSE IF inSwrPinned THEN "swr" ELSE "revalidate"
     ELSE
          IF mnc \/ rnc \/ (mr /\ (f.stale \/ own >= 0)) THEN (IF oic THEN "504" ELSE "revalidate")
          ELSE IF ~f.stale THEN "serve"
          ELSE IF oic THEN (IF rq.ma = 0 /\ "oic_maxage0_served" \notin Defects THEN "504" ELSE "serve")
          ELSE IF inSwr THEN "swr"
          ELSE "revalidate"

\* CanStoreResponse
CanStore(r, rq) ==
  /\ r.st >= 200 /\ r.st < 600
  /\ ~((r.st = 206 \/ r.st = 304 \/ (r.ccp = 1 /\ Has(r, "must-understand"))) /\ r.st \notin CodeUnderstood)
  /\ ("store_304" \in Defects \/ r.st # 304)
  /\ ~(r.ccp = 1 /\ Has(r, "no-store")) /\ ~Has(rq, "no-store")
  /\ ( (r.ccp = 1 /\ Has(r, "public")) \/ r.exp # None \/ (r.ccp = 1 /\ r.ma # None) \/ r.st \in CodeHeuristicStatus )

\* CanStaleOnError
CodeSie(r, rq, f, t, errRep) ==
  LET age == IF f.zero THEN 0 ELSE CodeAge(r, t)
      ws == IF "sie_only_from_error_reply" \in Defects
              THEN (IF errRep.ccp = 1 /\ errRep.sie >= 0 THEN {errRep.sie} ELSE {})
            ELSE SieWindows(r, rq)
      forbidden == IF "sie_only_from_error_reply" \in Defects THEN FALSE ELSE SieForbidden(r, rq)
  IN ~forbidden /\ \E n \in ws : age <= f.life + n

CodeUnsafe(m) == IF "four_unsafe_methods" \in Defects THEN m \in {"POST", "PUT", "DELETE", "PATCH"}
                 ELSE m \notin SafeMethods

(***************************************************************************)
(* the variant index (internal/varymatcher.go, responsestorerer.go)        *)
(***************************************************************************)
ResOf(vary, vs, rq) == IF vs = 1 THEN <<>> ELSE [i \in 1..Len(vary) |-> <<vary[i], rq.sel[vary[i] + 1]>>]
IdOf(u, vary, vs, rq) == <<u, IF vs = 1 \/ Len(vary) = 0 THEN <<>> ELSE SortSeq(ResOf(vary, vs, rq), LAMBDA a, b : a[1] < b[1])>>

RefBefore(a, b) ==
  IF a.vs # b.vs THEN b.vs = 1
  ELSE IF (Len(a.vary) > 0) # (Len(b.vary) > 0) THEN Len(a.vary) > 0
  ELSE a.date < b.date \/ (a.date = b.date /\ a.seq < b.seq)
SortRefs(s) == SortSeq(s, RefBefore)
RefMatches(r, rq) == r.vs = 0 /\ \A i \in 1..Len(r.res) : rq.sel[r.res[i][1] + 1] = r.res[i][2]
FirstMatch(s, rq) == IF \E i \in 1..Len(s) : RefMatches(s[i], rq)
                       THEN CHOOSE i \in 1..Len(s) : RefMatches(s[i], rq) /\ \A j \in 1..(i - 1) : ~RefMatches(s[j], rq)
                     ELSE 0

\* StoreResponse: new refs after storing a response with identity id
NewRefs(refs, ri, ref) ==
  LET r2 == IF ri >= 1 /\ ri <= Len(refs) THEN [refs EXCEPT ![ri] = ref] ELSE Append(refs, ref)
      pos == IF ri >= 1 /\ ri <= Len(refs) THEN ri ELSE Len(r2)
  IN IF "append_dup" \in Defects THEN r2
     ELSE SelectSeq([i \in 1..Len(r2) |-> IF r2[i].id = ref.id /\ i # pos THEN [r2[i] EXCEPT !.id = <<>>] ELSE r2[i]],
                    LAMBDA r : r.id # <<>>)

(***************************************************************************)
(* event construction (harness: RecConn, Origin, doReq)                    *)
(***************************************************************************)
KeyNo(k) == IF k \in DOMAIN ctr.keys THEN ctr.keys[k] ELSE Cardinality(DOMAIN ctr.keys) + 1
WithKey(c, k) == IF k \in DOMAIN c.keys THEN c ELSE [c EXCEPT !.keys = c.keys @@ (k :> Cardinality(DOMAIN c.keys) + 1)]

EntToks(e) == IF e = NoEnt THEN <<>> ELSE <<e.tok>>
EntTags(e) == IF e = NoEnt THEN <<>> ELSE <<e.tag>>
NKeys(i, e) == Cardinality({u \in DOMAIN i : TRUE}) + Cardinality(DOMAIN e)
MaxIdx(i) == IF DOMAIN i = {} THEN 0 ELSE LET S == {Len(i[u]) : u \in DOMAIN i} IN CHOOSE m \in S : \A n \in S : n <= m

EvOp(x, bg, kind, role, key, ok, nx, toks, tags, n, i2, e2) ==
  [ ev |-> "op", x |-> x, bg |-> bg, kind |-> kind, role |-> role, k |-> KeyNo(key), ok |-> ok, nx |-> nx,
    fault |-> "", n |-> n, toks |-> toks, tags |-> tags, hop |-> 0, nkeys |-> NKeys(i2, e2), maxidx |-> MaxIdx(i2), orph |-> 0, t |-> now ]

\* the gated operations (store operations and origin calls) in the order they happened, by exchange
Gated(e) == e.ev \in {"op", "call"}
Emit(e) == CASE e.ev = "begin" -> OnBegin(led, e, 0)
             [] e.ev = "op"    -> OnOp(led, e, 0)
             [] e.ev = "call"  -> OnCall(led, e, 0)
             [] e.ev = "ret"   -> OnRet(led, e, 0)
             [] e.ev = "end"   -> OnEnd(led, e, 0)
             [] OTHER          -> OnQuiet(led, e, 0)

Emit2(L, e) == CASE e.ev = "op" -> OnOp(L, e, 0) [] e.ev = "call" -> OnCall(L, e, 0) [] OTHER -> OnQuiet(L, e, 0)

(***************************************************************************)
(* actions                                                                 *)
(***************************************************************************)
Init0 ==
  /\ now = TBase
  /\ idx = <<>> /\ ent = <<>>
  /\ ex = Idle
  /\ ctr = [tok |-> 0, tag |-> 0, x |-> 0, keys |-> <<>>]
  /\ led = [EmptyLedger("model") EXCEPT !.t = TBase]
  /\ hist = <<>>

\* RoundTrip entry
BeginF(rq, flt) ==
  /\ ex.pc = "idle"
  /\ LET x == ctr.x + 1
         understood == rq.m = "GET" /\ rq.range = 0
     IN /\ ex' = [ pc |-> IF understood THEN "getrefs" ELSE "bypass", x |-> x, rq |-> rq, anss |-> <<>>, na |-> 0,
                   refs |-> <<>>, ri |-> 0, stored |-> NoEnt, fr |-> [stale |-> TRUE, age |-> 0, life |-> 0, zero |-> FALSE],
                   purpose |-> "", got |-> NoEnt, t0 |-> now, out |-> NoEnt, ncalls |-> 0, ops |-> <<>>,
                   st1 |-> 0, st2 |-> 0, bgq |-> <<>>, flt |-> flt, nop |-> 0 ]
        /\ ctr' = [ctr EXCEPT !.x = x]
        /\ led' = Emit([ev |-> "begin", x |-> x, t |-> now, rq |-> rq, nfault |-> Cardinality(flt), hard |-> IF flt = {} THEN 0 ELSE 1])
  /\ UNCHANGED <<now, idx, ent, hist>>

Begin(rq) == BeginF(rq, {})

\* does the next store operation of this exchange fail (scripted fault)?
Faulty == (ex.nop + 1) \in ex.flt
FaultEv(bg, kind, role, key) ==
  [ ev |-> "op", x |-> ex.x, bg |-> bg, kind |-> kind, role |-> role,
    k |-> KeyNo(key), ok |-> 0, nx |-> 0, fault |-> "err", n |-> -1, toks |-> <<>>, tags |-> <<>>, hop |-> 0,
    nkeys |-> NKeys(idx, ent), maxidx |-> MaxIdx(idx), orph |-> 0, t |-> now ]

\* cache.GetRefs + VaryHeadersMatch
GetRefs ==
  /\ ex.pc = "getrefs"
  /\ ~Faulty
  /\ LET u == ex.rq.u
         has == u \in DOMAIN idx
         refs == IF has THEN SortRefs(idx[u]) ELSE <<>>
         ri == FirstMatch(refs, ex.rq)
         e == EvOp(ex.x, 0, "get", IF has THEN "idx" ELSE "unk", <<"idx", u>>, IF has THEN 1 ELSE 0, IF has THEN 0 ELSE 1,
                   <<>>, <<>>, IF has THEN Len(idx[u]) ELSE -1, idx, ent)
     IN /\ ex' = [ex EXCEPT !.pc = IF Len(refs) = 0 \/ ri = 0 THEN "miss" ELSE "getent", !.refs = refs, !.ri = ri,
                            !.ops = Append(ex.ops, "get"), !.nop = ex.nop + 1]
        /\ ctr' = WithKey(ctr, <<"idx", u>>)
        /\ led' = Emit(e)
  /\ UNCHANGED <<now, idx, ent, hist>>

\* cache.Get(responseID) + ParseResponse + handleCacheHit's decision
GetEntry ==
  /\ ex.pc = "getent"
  /\ ~Faulty
  /\ LET id == ex.refs[ex.ri].id
         has == id \in DOMAIN ent
         e == EvOp(ex.x, 0, "get", IF has THEN "ent" ELSE "unk", <<"ent", id>>, IF has THEN 1 ELSE 0, IF has THEN 0 ELSE 1,
                   IF has THEN <<ent[id].tok>> ELSE <<>>, IF has THEN <<ent[id].tag>> ELSE <<>>, -1, idx, ent)
     IN /\ ex' = IF has
                   THEN LET d == Decide(ent[id].rep, ex.rq, now) IN
                        [ex EXCEPT !.pc = d, !.stored = ent[id], !.fr = CodeFresh(ent[id].rep, ex.rq, now),
                                   !.ops = Append(ex.ops, "get"), !.nop = ex.nop + 1]
                 ELSE [ex EXCEPT !.pc = "miss", !.ops = Append(ex.ops, "get"), !.nop = ex.nop + 1]
        /\ ctr' = WithKey(ctr, <<"ent", id>>)
        /\ led' = Emit(e)
  /\ UNCHANGED <<now, idx, ent, hist>>

\* a failing or undecodable Get: the exchange goes on as a miss (fail open)
GetRefsFault ==
  /\ ex.pc = "getrefs" /\ Faulty
  /\ ex' = [ex EXCEPT !.pc = "miss", !.refs = <<>>, !.ri = 0, !.ops = Append(ex.ops, "get"), !.nop = ex.nop + 1]
  /\ ctr' = WithKey(ctr, <<"idx", ex.rq.u>>)
  /\ led' = Emit(FaultEv(0, "get", "unk", <<"idx", ex.rq.u>>))
  /\ UNCHANGED <<now, idx, ent, hist>>

GetEntryFault ==
  /\ ex.pc = "getent" /\ Faulty
  /\ ex' = [ex EXCEPT !.pc = "miss", !.ops = Append(ex.ops, "get"), !.nop = ex.nop + 1]
  /\ ctr' = WithKey(ctr, <<"ent", ex.refs[ex.ri].id>>)
  /\ led' = Emit(FaultEv(0, "get", "unk", <<"ent", ex.refs[ex.ri].id>>))
  /\ UNCHANGED <<now, idx, ent, hist>>

RetEv(label, st, tok, tag, age, nage, h, err) ==
  [ ev |-> "ret", x |-> ex.x, t |-> now, t0 |-> ex.t0, err |-> err, panic |-> 0, neither |-> 0, both |-> 0,
    st |-> st, label |-> label, nlab |-> IF err = 1 THEN 0 ELSE 1, fc |-> IF label \in CacheLabels THEN "1" ELSE "",
    tok |-> tok, tag |-> tag, age |-> age, nage |-> nage, bodyok |-> 1, bodyerr |-> 0, e2eok |-> 1, hopin |-> 0,
    stsame |-> 1, requnch |-> 1, scrib |-> 0, h |-> h ]

FaultList == LET fs == SetToSeq(ex.flt) IN [i \in 1..Len(fs) |-> [n |-> fs[i], kind |-> "err"]]
Pred(e) == [label |-> e.label, st |-> e.st, tok |-> e.tok, tag |-> e.tag, age |-> e.age, err |-> e.err, ops |-> ex.ops, ncalls |-> ex.ncalls]

\* the exchange is over: log the step, with the model's prediction, into hist
Finish(e) ==
  /\ led' = Emit(e)
  /\ hist' = Append(hist, [op |-> "req", x |-> ex.x, rq |-> ex.rq, faults |-> FaultList, cancel |-> ex.rq.cancel, ans |-> ex.anss, pred |-> Pred(e)])
  /\ ex' = Idle

\* serveFromCache
Serve ==
  /\ ex.pc = "serve"
  /\ LET r == ex.stored.rep
         qual == Qualified(r)
         age == IF ex.fr.zero THEN 0 ELSE CodeAge(r, now)
     IN Finish(RetEv("HIT", r.st, ex.stored.tok, ex.stored.tag, age, 1,
                     [HOf(r) EXCEPT !.secret = IF qual THEN 0 ELSE 1, !.etag = IF NamesEtag(r) THEN 0 ELSE r.etag], 0))
  /\ UNCHANGED <<now, idx, ent, ctr>>

\* only-if-cached and nothing usable
Ret504 ==
  /\ ex.pc = "504"
  /\ Finish(RetEv("BYPASS", 504, "", "", None, 0, [NoH EXCEPT !.ccp = 1, !.ma = Invalid, !.unk = 1], 0))
  /\ UNCHANGED <<now, idx, ent, ctr>>

\* handleCacheMiss up to the origin call
Miss ==
  /\ ex.pc = "miss"
  /\ ex' = [ex EXCEPT !.pc = IF Has(ex.rq, "only-if-cached") THEN "504" ELSE "origin", !.purpose = "miss"]
  /\ UNCHANGED <<now, idx, ent, ctr, led, hist>>

Revalidate ==
  /\ ex.pc = "revalidate"
  /\ ex' = [ex EXCEPT !.pc = "origin", !.purpose = "reval"]
  /\ UNCHANGED <<now, idx, ent, ctr, led, hist>>

\* roundTripTimed: the origin call with its scripted answer (time passes inside)
Origin(a) ==
  /\ ex.pc = "origin"
  /\ LET t0 == now
         t1 == now + a.lat
         isResp == a.k \in {"full", "304", "bodyerr"}
         tagn == IF isResp THEN ctr.tag + 1 ELSE ctr.tag
         tokn == IF isResp /\ a.k # "304" THEN ctr.tok + 1 ELSE ctr.tok
         tag == IF isResp THEN "tg" \o ToString(tagn) ELSE ""
         tok == IF isResp /\ a.k # "304" THEN "tk" \o ToString(tokn) ELSE ""
         rep == IF isResp THEN RepOf(a, t0, t1) ELSE [st |-> 0, vary |-> <<>>, vs |-> 0, age |-> None, locu |-> -1, locso |-> 0, clocu |-> -1, clocso |-> 0]
         s == ex.stored
         reval == ex.purpose = "reval"
         inm == IF reval /\ s.rep.etag > 0 THEN s.rep.etag ELSE ex.rq.inm
         ims == IF reval /\ s.rep.lm >= 0 THEN s.rep.lm ELSE IF ex.rq.ims > 0 THEN Invalid ELSE 0
         e == [ ev |-> "call", x |-> ex.x, c |-> ex.ncalls + 1, bg |-> 0, kind |-> IF a.k = "hang" THEN "released" ELSE a.k,
                tag |-> tag, tok |-> tok, t0 |-> t0, t1 |-> t1, inm |-> inm, ims |-> ims, m |-> ex.rq.m, rng |-> ex.rq.range,
                oic |-> IF Has(ex.rq, "only-if-cached") THEN 1 ELSE 0, rep |-> rep, ctxdone |-> 0, hsame |-> 1, usame |-> 1, url |-> "" ]
     IN /\ now' = t1
        /\ ctr' = [ctr EXCEPT !.tag = tagn, !.tok = tokn]
        /\ ex' = [ex EXCEPT !.pc = IF ex.purpose = "bypass" THEN "bypassed" ELSE IF reval THEN "handle" ELSE "missed",
                            !.na = ex.na + 1, !.ncalls = ex.ncalls + 1, !.anss = Append(ex.anss, a),
                            !.got = [k |-> a.k, rep |-> rep, tok |-> tok, tag |-> tag, t0 |-> t0, t1 |-> t1]]
        /\ led' = [Emit(e) EXCEPT !.t = t1]
  /\ UNCHANGED <<idx, ent, hist>>

\* handleCacheMiss after the origin call
Missed ==
  /\ ex.pc = "missed"
  /\ LET g == ex.got IN
     IF g.k \in {"err", "hang"}
       THEN Finish(RetEv("", 0, "", "", None, 0, NoH, 1)) /\ UNCHANGED <<now, idx, ent, ctr>>
     ELSE IF CanStore(g.rep, ex.rq)
       THEN /\ ex' = [ex EXCEPT !.pc = "setent", !.out = [label |-> "MISS"]]
            /\ UNCHANGED <<now, idx, ent, ctr, led, hist>>
     ELSE Finish(RetEv("MISS", g.rep.st, g.tok, g.tag, g.rep.age, IF g.rep.age = None THEN 0 ELSE 1, HOf(g.rep), 0))
          /\ UNCHANGED <<now, idx, ent, ctr>>

\* StoreResponse, first half: cache.Set(responseID, entry)
SetEnt ==
  /\ ex.pc = "setent"
  /\ LET g == ex.got
         id == IdOf(ex.rq.u, g.rep.vary, g.rep.vs, ex.rq)
         entry == [rep |-> g.rep, tok |-> g.tok, tag |-> g.tag]
         called == g.k # "bodyerr"                 \* DumpResponse failed: cache.Set is not reached
         okset == called /\ ~Faulty
         ent2 == IF okset THEN [i \in DOMAIN ent \cup {id} |-> IF i = id THEN entry ELSE ent[i]] ELSE ent
         e == IF okset THEN EvOp(ex.x, 0, "set", "ent", <<"ent", id>>, 1, 0, <<g.tok>>, <<g.tag>>, -1, idx, ent2)
              ELSE [FaultEv(0, "set", "ent", <<"ent", id>>) EXCEPT !.toks = <<g.tok>>, !.tags = <<g.tag>>]
     IN /\ ent' = ent2
        /\ ctr' = IF called THEN WithKey(ctr, <<"ent", id>>) ELSE ctr
        /\ led' = IF called THEN Emit(e) ELSE led
        /\ ex' = [ex EXCEPT !.pc = "setidx", !.ops = IF called THEN Append(ex.ops, "set") ELSE ex.ops,
                            !.nop = IF called THEN ex.nop + 1 ELSE ex.nop]
  /\ UNCHANGED <<now, idx, hist>>

\* StoreResponse, second half: cache.SetRefs(urlKey, refs)
SetIdx ==
  /\ ex.pc = "setidx"
  /\ LET g == ex.got
         u == ex.rq.u
         id == IdOf(u, g.rep.vary, g.rep.vs, ex.rq)
         seqs == {ex.refs[i].seq : i \in 1..Len(ex.refs)}
         ref == [ vary |-> g.rep.vary, vs |-> g.rep.vs, res |-> ResOf(g.rep.vary, g.rep.vs, ex.rq), id |-> id,
                  date |-> g.rep.date, seq |-> IF seqs = {} THEN 1 ELSE 1 + CHOOSE m \in seqs : \A n \in seqs : n <= m ]
         refs2 == NewRefs(ex.refs, ex.ri, ref)
         idx2 == IF Faulty THEN idx ELSE [v \in DOMAIN idx \cup {u} |-> IF v = u THEN refs2 ELSE idx[v]]
         e == IF Faulty THEN [FaultEv(0, "set", "idx", <<"idx", u>>) EXCEPT !.n = Len(refs2)]
              ELSE EvOp(ex.x, 0, "set", "idx", <<"idx", u>>, 1, 0, <<>>, <<>>, Len(refs2), idx2, ent)
     IN /\ idx' = idx2
        /\ ctr' = WithKey(ctr, <<"idx", u>>)
        /\ LET L2 == Emit(e)
               ev == IF ex.out.label = "REVALIDATED"
                       THEN RetEv("REVALIDATED", g.rep.st, g.tok, g.tag, g.rep.age, IF g.rep.age = None THEN 0 ELSE 1, HOf(g.rep), 0)
                     ELSE RetEv("MISS", g.rep.st, g.tok, g.tag, g.rep.age, IF g.rep.age = None THEN 0 ELSE 1, HOf(g.rep), 0)
               ex1 == [ex EXCEPT !.ops = Append(ex.ops, "set")]
           IN /\ led' = OnRet(L2, ev, 0)
              /\ hist' = Append(hist, [op |-> "req", x |-> ex.x, rq |-> ex.rq, faults |-> FaultList, cancel |-> ex.rq.cancel, ans |-> ex.anss,
                                       pred |-> [label |-> ev.label, st |-> ev.st, tok |-> ev.tok, tag |-> ev.tag, age |-> ev.age,
                                                 err |-> 0, ops |-> ex1.ops, ncalls |-> ex.ncalls]])
              /\ ex' = Idle
  /\ UNCHANGED <<now, ent>>

\* HandleValidationResponse
Handle ==
  /\ ex.pc = "handle"
  /\ LET g == ex.got
         s == ex.stored
         failed == g.k \in {"err", "hang"}
         sieStatus == ~failed /\ g.rep.st \in SieStatuses
         errRep == IF failed THEN [ccp |-> 0, sie |-> None] ELSE g.rep
     IN IF ~failed /\ g.rep.st = 304 /\ s.rep.etag = 0 /\ s.rep.lm < 0 /\ "foreign_304_freshens" \notin Defects
          THEN \* the stored response has no validator: the conditional headers were the client's own and so is the 304
               Finish(RetEv("MISS", 304, g.tok, g.tag, g.rep.age, IF g.rep.age = None THEN 0 ELSE 1, HOf(g.rep), 0))
               /\ UNCHANGED <<now, idx, ent, ctr>>
        ELSE IF ~failed /\ g.rep.st = 304
          THEN \* freshen: merge and (repaired) write back through StoreResponse
               IF "no304_writeback" \in Defects \/ Has(ex.rq, "no-store") \/ (g.rep.ccp = 1 /\ Has(g.rep, "no-store"))
                 THEN Finish(RetEv("REVALIDATED", s.rep.st, s.tok, g.tag, Merge(s.rep, g.rep).age,
                                   IF Merge(s.rep, g.rep).age = None THEN 0 ELSE 1, HOf(Merge(s.rep, g.rep)), 0))
                      /\ UNCHANGED <<now, idx, ent, ctr>>
               ELSE /\ ex' = [ex EXCEPT !.pc = "setent", !.out = [label |-> "REVALIDATED"],
                                        !.got = [k |-> "304m", rep |-> MergedRep(s.rep, g.rep), tok |-> s.tok, tag |-> g.tag,
                                                 t0 |-> g.t0, t1 |-> g.t1]]
                    /\ UNCHANGED <<now, idx, ent, ctr, led, hist>>
        ELSE IF (failed \/ sieStatus) /\ CodeSie(s.rep, ex.rq, ex.fr, now, errRep)
          THEN Finish(RetEv("STALE", s.rep.st, s.tok, s.tag, IF ex.fr.zero THEN 0 ELSE CodeAge(s.rep, now), 1, StoreH(s.rep), 0))
               /\ UNCHANGED <<now, idx, ent, ctr>>
        ELSE IF failed
          THEN Finish(RetEv("", 0, "", "", None, 0, NoH, 1)) /\ UNCHANGED <<now, idx, ent, ctr>>
        ELSE IF CanStore(g.rep, ex.rq)
          THEN /\ ex' = [ex EXCEPT !.pc = "setent", !.out = [label |-> "MISS"]]
               /\ UNCHANGED <<now, idx, ent, ctr, led, hist>>
        ELSE Finish(RetEv("BYPASS", g.rep.st, g.tok, g.tag, g.rep.age, IF g.rep.age = None THEN 0 ELSE 1, HOf(g.rep), 0))
             /\ UNCHANGED <<now, idx, ent, ctr>>

Tick(d) ==
  /\ ex.pc = "idle"
  /\ now' = now + d
  /\ led' = [led EXCEPT !.t = now + d]
  /\ hist' = Append(hist, [op |-> "tick", d |-> d])
  /\ UNCHANGED <<idx, ent, ex, ctr>>

(***************************************************************************)
(* handleUnrecognizedMethod and InvalidateCache                            *)
(***************************************************************************)
\* a request the cache does not answer from its store goes to the origin - unless it says only-if-cached
\* (the pinned tree forwarded those too)
Bypass ==
  /\ ex.pc = "bypass"
  /\ ex' = IF Has(ex.rq, "only-if-cached") /\ "oic_bypass_forwards" \notin Defects THEN [ex EXCEPT !.pc = "504"]
            ELSE [ex EXCEPT !.pc = "origin", !.purpose = "bypass"]
  /\ UNCHANGED <<now, idx, ent, ctr, led, hist>>

IdsOf(refs) == [i \in 1..Len(refs) |-> <<"ent", refs[i].id>>]

Bypassed ==
  /\ ex.pc = "bypassed"
  /\ LET g == ex.got IN
     IF g.k \in {"err", "hang"}
       THEN Finish(RetEv("", 0, "", "", None, 0, NoH, 1)) /\ UNCHANGED <<now, idx, ent, ctr>>
     ELSE IF CodeUnsafe(ex.rq.m) /\ g.rep.st >= 200 /\ g.rep.st < 400
       THEN \* refs of the target, then Location, Content-Location, then the index key
            /\ ex' = [ex EXCEPT !.pc = "inv",
                        !.bgq = <<[kind |-> "get", key |-> <<"idx", ex.rq.u>>, then |-> "target"]>>
                                \o (IF g.rep.locu >= 0 /\ g.rep.locso = 1
                                      THEN <<[kind |-> "get", key |-> <<"idx", g.rep.locu>>, then |-> "loc"]>> ELSE <<>>)
                                \o (IF g.rep.clocu >= 0 /\ g.rep.clocso = 1
                                      THEN <<[kind |-> "get", key |-> <<"idx", g.rep.clocu>>, then |-> "loc"]>> ELSE <<>>)
                                \o <<[kind |-> "del", key |-> <<"idx", ex.rq.u>>, then |-> ""]>>,
                        !.st1 = 0]
            /\ UNCHANGED <<now, idx, ent, ctr, led, hist>>
     ELSE Finish(RetEv("BYPASS", g.rep.st, g.tok, g.tag, g.rep.age, IF g.rep.age = None THEN 0 ELSE 1, HOf(g.rep), 0))
          /\ UNCHANGED <<now, idx, ent, ctr>>

\* one store operation of the invalidation; ex.refs doubles as the set of keys already deleted
InvStep ==
  /\ ex.pc = "inv"
  /\ IF Len(ex.bgq) = 0
       THEN LET g == ex.got IN
            Finish(RetEv("BYPASS", g.rep.st, g.tok, g.tag, g.rep.age, IF g.rep.age = None THEN 0 ELSE 1, HOf(g.rep), 0))
            /\ UNCHANGED <<now, idx, ent, ctr>>
     ELSE
       LET w == ex.bgq[1]
           rest == Tail(ex.bgq)
           key == w.key
       IN IF w.kind = "get"
            THEN LET has == key[2] \in DOMAIN idx
                     refs == IF has THEN idx[key[2]] ELSE <<>>
                     dels == [i \in 1..Len(refs) |-> [kind |-> "del", key |-> <<"ent", refs[i].id>>, then |-> ""]]
                     e == EvOp(ex.x, 0, "get", IF has THEN "idx" ELSE "unk", key, IF has THEN 1 ELSE 0, IF has THEN 0 ELSE 1,
                               <<>>, <<>>, IF has THEN Len(refs) ELSE -1, idx, ent)
                 IN /\ led' = Emit(e)
                    /\ ctr' = WithKey(ctr, key)
                    /\ ex' = [ex EXCEPT !.bgq = dels \o (IF w.then = "loc" THEN <<[kind |-> "del", key |-> key, then |-> ""]>> ELSE <<>>) \o rest,
                                        !.ops = Append(ex.ops, "get")]
                    /\ UNCHANGED <<now, idx, ent, hist>>
          ELSE IF \E i \in 1..Len(ex.refs) : ex.refs[i] = key
            THEN /\ ex' = [ex EXCEPT !.bgq = rest]      \* already deleted in this invalidation
                 /\ UNCHANGED <<now, idx, ent, ctr, led, hist>>
          ELSE LET isIdx == key[1] = "idx"
                   has == IF isIdx THEN key[2] \in DOMAIN idx ELSE key[2] \in DOMAIN ent
                   idx2 == IF isIdx /\ has THEN [v \in DOMAIN idx \ {key[2]} |-> idx[v]] ELSE idx
                   ent2 == IF ~isIdx /\ has THEN [i \in DOMAIN ent \ {key[2]} |-> ent[i]] ELSE ent
                   e == EvOp(ex.x, 0, "del", "unk", key, IF has THEN 1 ELSE 0, IF has THEN 0 ELSE 1, <<>>, <<>>, -1, idx2, ent2)
               IN /\ idx' = idx2 /\ ent' = ent2
                  /\ led' = Emit(e)
                  /\ ctr' = WithKey(ctr, key)
                  /\ ex' = [ex EXCEPT !.bgq = rest, !.refs = Append(ex.refs, key), !.ops = Append(ex.ops, "del")]
                  /\ UNCHANGED <<now, hist>>

(***************************************************************************)
(* handleStaleWhileRevalidate and backgroundRevalidate (sequential view:   *)
(* the background task runs to completion right after the return; its      *)
(* timing and cancellation are the subject of MC_swr)                      *)
(***************************************************************************)
SwrServe ==
  /\ ex.pc = "swr"
  /\ LET r == ex.stored.rep
         age == IF "swr_stored_age" \in Defects THEN r.age ELSE CodeAge(r, now)
         nage == IF "swr_stored_age" \in Defects /\ r.age = None THEN 0 ELSE 1
         e == RetEv("STALE", r.st, ex.stored.tok, ex.stored.tag, age, nage, StoreH(r), 0)
     IN /\ led' = Emit(e)
        /\ hist' = Append(hist, [op |-> "req", x |-> ex.x, rq |-> ex.rq, faults |-> FaultList, cancel |-> ex.rq.cancel, ans |-> ex.anss, pred |-> Pred(e)])
        /\ ex' = [ex EXCEPT !.pc = "bgorigin"]
  /\ UNCHANGED <<now, idx, ent, ctr>>

\* the background request under a timeout of swrms milliseconds: an answer that takes at least
\* that long (or never comes) is cut off by the context deadline; a caller whose context is
\* already cancelled takes the background request with it as soon as it has to wait
BgOriginT(a0, swrms) ==
  /\ ex.pc = "bgorigin"
  \* (cancel: 0 never, 1 after the return, 2 before the call, 3 never - but the caller's context has a far deadline of its own)
  /\ LET late == a0.k = "hang" \/ a0.lat * 1000 >= swrms \/ (ex.rq.cancel \in {1, 2} /\ a0.lat > 0)
         dur == IF ex.rq.cancel \in {1, 2} /\ (a0.lat > 0 \/ a0.k = "hang") THEN 0
                ELSE IF late THEN (swrms + 999) \div 1000 ELSE a0.lat
         a == IF late THEN [a0 EXCEPT !.k = "hang"] ELSE a0
         isResp == a.k \in {"full", "304", "bodyerr"}
         tagn == IF isResp THEN ctr.tag + 1 ELSE ctr.tag
         tokn == IF isResp /\ a.k # "304" THEN ctr.tok + 1 ELSE ctr.tok
         tag == IF isResp THEN "tg" \o ToString(tagn) ELSE ""
         tok == IF isResp /\ a.k # "304" THEN "tk" \o ToString(tokn) ELSE ""
         rep == IF isResp THEN RepOf(a, now, now + dur) ELSE [st |-> 0, vary |-> <<>>, vs |-> 0, age |-> None, locu |-> -1, locso |-> 0, clocu |-> -1, clocso |-> 0]
         s == ex.stored
         e == [ ev |-> "call", x |-> ex.x, c |-> ex.ncalls + 1, bg |-> 1, kind |-> IF a.k = "hang" THEN "cancelled" ELSE a.k,
                tag |-> tag, tok |-> tok, t0 |-> now, t1 |-> now + dur,
                \* (a tree that strips the fields named by a qualified no-cache before it builds the background request
                \* loses the validator)
                inm |-> IF s.rep.etag > 0 /\ ~("swr_strips_validators" \in Defects /\ NamesEtag(s.rep)) THEN s.rep.etag ELSE ex.rq.inm,
                ims |-> IF s.rep.lm >= 0 THEN s.rep.lm ELSE IF ex.rq.ims > 0 THEN Invalid ELSE 0,
                m |-> ex.rq.m, rng |-> ex.rq.range, oic |-> 0, rep |-> rep, ctxdone |-> IF a.k = "hang" THEN 1 ELSE 0,
                hsame |-> 1, usame |-> 1, url |-> "" ]
     IN /\ ctr' = [ctr EXCEPT !.tag = tagn, !.tok = tokn]
        /\ led' = Emit(e)
        /\ ex' = [ex EXCEPT !.pc = IF a.k \in {"err", "hang"} \/ "bg_shares_response" \in Defects THEN "bghandle"
                                           ELSE IF "bg_stale_refs" \in Defects THEN "bggetent" ELSE "bggetrefs",
                            !.na = ex.na + 1, !.ncalls = ex.ncalls + 1,
                            !.got = [k |-> a.k, rep |-> rep, tok |-> tok, tag |-> tag, t0 |-> now, t1 |-> now + dur]]
        \* the background answer belongs to the step that was already logged at the return
        /\ LET i == CHOOSE i \in 1..Len(hist) : hist[i].op = "req" /\ hist[i].x = ex.x IN
           hist' = [hist EXCEPT ![i].ans = Append(hist[i].ans, a0)]
        /\ UNCHANGED <<now, idx, ent>>

BgOrigin(a) == BgOriginT(a, 5000)

\* the background task reads the index again: other variants may have been stored, or this one replaced, while the origin
\* was asked. (The pinned tree wrote back the index as it was when the stale response was served - Defects "bg_stale_refs" -
\* and so dropped every variant stored in between.) If the reference is no longer listed the old snapshot stays in use.
BgGetRefs ==
  /\ ex.pc = "bggetrefs"
  /\ LET u == ex.rq.u
         has == u \in DOMAIN idx /\ ~Faulty
         cur == IF has THEN idx[u] ELSE <<>>
         id == ex.refs[ex.ri].id
         pos == IF \E i \in 1..Len(cur) : cur[i].id = id THEN CHOOSE i \in 1..Len(cur) : cur[i].id = id ELSE 0
         e == IF Faulty THEN FaultEv(1, "get", "unk", <<"idx", u>>)
              ELSE EvOp(ex.x, 1, "get", IF has THEN "idx" ELSE "unk", <<"idx", u>>, IF has THEN 1 ELSE 0, IF has THEN 0 ELSE 1,
                        <<>>, <<>>, IF has THEN Len(idx[u]) ELSE -1, idx, ent)
     IN /\ led' = Emit(e)
        /\ ctr' = WithKey(ctr, <<"idx", u>>)
        /\ ex' = [ex EXCEPT !.pc = "bggetent", !.nop = ex.nop + 1,
                            !.refs = IF pos > 0 THEN cur ELSE ex.refs, !.ri = IF pos > 0 THEN pos ELSE ex.ri]
  /\ UNCHANGED <<now, idx, ent, hist>>

\* the background task reads its own copy of the entry (the served one belongs to the caller)
BgGetEnt ==
  /\ ex.pc = "bggetent"
  /\ LET id == ex.refs[ex.ri].id
         has == id \in DOMAIN ent /\ ~Faulty
         e == IF Faulty THEN FaultEv(1, "get", "unk", <<"ent", id>>)
              ELSE EvOp(ex.x, 1, "get", IF has THEN "ent" ELSE "unk", <<"ent", id>>, IF has THEN 1 ELSE 0, IF has THEN 0 ELSE 1,
                        IF has THEN <<ent[id].tok>> ELSE <<>>, IF has THEN <<ent[id].tag>> ELSE <<>>, -1, idx, ent)
     IN /\ led' = Emit(e)
        /\ ctr' = WithKey(ctr, <<"ent", id>>)
        /\ ex' = IF has THEN [ex EXCEPT !.pc = "bghandle", !.stored = ent[id], !.nop = ex.nop + 1] ELSE Idle
  /\ UNCHANGED <<now, idx, ent, hist>>

\* HandleValidationResponse in the background: only its store effects matter
BgHandle ==
  /\ ex.pc = "bghandle"
  /\ LET g == ex.got
         s == ex.stored
         failed == g.k \in {"err", "hang"}
         refs0 == IF "bg_drops_refs" \in Defects THEN <<>> ELSE ex.refs
         ri0 == IF "bg_drops_refs" \in Defects THEN 0 ELSE ex.ri
     IN IF failed THEN ex' = Idle /\ UNCHANGED led
        ELSE IF g.rep.st = 304 /\ "bg_shares_response" \in Defects
          THEN \* the pinned tree merged the 304 into the response object the caller already holds
               /\ ex' = Idle
               /\ led' = OnMut(led, [ev |-> "mut", x |-> ex.x, resp |-> 1, req |-> 0, body |-> 0, t |-> now], 0)
        ELSE UNCHANGED led /\
        IF g.rep.st = 304
          THEN IF "no304_writeback" \in Defects \/ Has(ex.rq, "no-store") \/ (g.rep.ccp = 1 /\ Has(g.rep, "no-store")) THEN ex' = Idle
               ELSE ex' = [ex EXCEPT !.pc = "bgsetent", !.refs = refs0, !.ri = ri0,
                                     !.got = [k |-> "304m", rep |-> MergedRep(s.rep, g.rep), tok |-> s.tok, tag |-> g.tag, t0 |-> g.t0, t1 |-> g.t1]]
        ELSE IF g.rep.st \in SieStatuses /\ CodeSie(s.rep, ex.rq, ex.fr, now, g.rep) THEN ex' = Idle
        ELSE IF CanStore(g.rep, ex.rq) THEN ex' = [ex EXCEPT !.pc = "bgsetent", !.refs = refs0, !.ri = ri0]
        ELSE ex' = Idle
  /\ UNCHANGED <<now, idx, ent, ctr, hist>>

BgSetEnt ==
  /\ ex.pc = "bgsetent"
  /\ LET g == ex.got
         id == IdOf(ex.rq.u, g.rep.vary, g.rep.vs, ex.rq)
         entry == [rep |-> g.rep, tok |-> g.tok, tag |-> g.tag]
         called == g.k # "bodyerr"
         okset == called /\ ~Faulty
         ent2 == IF okset THEN [i \in DOMAIN ent \cup {id} |-> IF i = id THEN entry ELSE ent[i]] ELSE ent
         e == IF okset THEN EvOp(ex.x, 1, "set", "ent", <<"ent", id>>, 1, 0, <<g.tok>>, <<g.tag>>, -1, idx, ent2)
              ELSE [FaultEv(1, "set", "ent", <<"ent", id>>) EXCEPT !.toks = <<g.tok>>, !.tags = <<g.tag>>]
     IN /\ ent' = ent2
        /\ ctr' = IF called THEN WithKey(ctr, <<"ent", id>>) ELSE ctr
        /\ led' = IF called THEN Emit(e) ELSE led
        /\ ex' = [ex EXCEPT !.pc = "bgsetidx", !.nop = IF called THEN ex.nop + 1 ELSE ex.nop]
  /\ UNCHANGED <<now, idx, hist>>

BgSetIdx ==
  /\ ex.pc = "bgsetidx"
  /\ LET g == ex.got
         u == ex.rq.u
         id == IdOf(u, g.rep.vary, g.rep.vs, ex.rq)
         seqs == {ex.refs[i].seq : i \in 1..Len(ex.refs)}
         ref == [ vary |-> g.rep.vary, vs |-> g.rep.vs, res |-> ResOf(g.rep.vary, g.rep.vs, ex.rq), id |-> id,
                  date |-> g.rep.date, seq |-> IF seqs = {} THEN 1 ELSE 1 + CHOOSE m \in seqs : \A n \in seqs : n <= m ]
         refs2 == NewRefs(ex.refs, ex.ri, ref)
         idx2 == IF Faulty THEN idx ELSE [v \in DOMAIN idx \cup {u} |-> IF v = u THEN refs2 ELSE idx[v]]
         e == IF Faulty THEN [FaultEv(1, "set", "idx", <<"idx", u>>) EXCEPT !.n = Len(refs2)]
              ELSE EvOp(ex.x, 1, "set", "idx", <<"idx", u>>, 1, 0, <<>>, <<>>, Len(refs2), idx2, ent)
     IN /\ idx' = idx2
        /\ ctr' = WithKey(ctr, <<"idx", u>>)
        /\ led' = Emit(e)
        /\ ex' = Idle
  /\ UNCHANGED <<now, ent, hist>>

\* every step except Begin, Tick and the two origin calls (whose answers the configuration chooses)
Internal == GetRefs \/ GetEntry \/ GetRefsFault \/ GetEntryFault \/ Serve \/ Ret504 \/ Miss \/ Revalidate \/ Missed
            \/ SetEnt \/ SetIdx \/ Handle \/ Bypass \/ Bypassed \/ InvStep \/ SwrServe \/ BgGetRefs \/ BgGetEnt \/ BgHandle \/ BgSetEnt \/ BgSetIdx
=============================================================================
