------------------------------- MODULE Trace -------------------------------
(***************************************************************************)
(* Monitor acceptor for traces recorded from the real bartventer/httpcache *)
(* transport (DESIGN.md 3.6).  It is total by construction: every logged   *)
(* event is consumed, a ghost ledger is maintained from harness-side       *)
(* knowledge only (what the scripted origin sent, what the recording store *)
(* connection saw, what came back to the caller), and the property         *)
(* monitors of Props are evaluated in every state.  Violations are printed *)
(* and accumulated; the run fails at the end through POSTCONDITION.        *)
(***************************************************************************)
EXTENDS Props, Json, TLC, SequencesExt

CONSTANT TraceFile
Trace == ndJsonDeserialize(TraceFile)

VARIABLES l, led
vars == <<l, led>>

TraceInit == l = 1 /\ led = EmptyLedger("")

Ev == Trace[l]

Step(f) == l <= Len(Trace) /\ l' = l + 1 /\ led' = f

TraceNext ==
  /\ l <= Len(Trace)
  /\ LET e == Trace[l] IN
     CASE e.ev = "reset"  -> Step(OnReset(led, e, l))
       [] e.ev = "begin"  -> Step(OnBegin(led, e, l))
       [] e.ev = "op"     -> Step(OnOp(led, e, l))
       [] e.ev = "call"   -> Step(OnCall(led, e, l))
       [] e.ev = "ret"    -> Step(OnRet(led, e, l))
       [] e.ev = "tick"   -> Step(OnQuiet(led, e, l))
       [] e.ev = "reopen" -> Step(OnQuiet(led, e, l))
       [] e.ev = "mut"    -> Step(OnMut(led, e, l))
       [] e.ev = "end"    -> Step(OnEnd(led, e, l))
       [] e.ev = "crash"  -> Step(OnCrash(led, e, l))
       [] e.ev = "conc"   -> Step(OnConc(led, e, l))
       [] e.ev = "concend" -> Step(OnConc(led, e, l))
       [] e.ev = "race"   -> Step(OnRace(led, e, l))
       [] OTHER           -> Step(OnQuiet(led, e, l))

TraceSpec == TraceInit /\ [][TraceNext]_vars

\* The only invariant; always TRUE.  Register 1: violations, 2: statistics.
Record ==
  LET bad == Violated(led) IN
  /\ (bad = {} \/ ( /\ PrintT(<<"VIOL", led.scn, led.last.line, bad, led.last.kind>>)
                    /\ TLCSet(1, TLCGet(1) \cup {<<led.scn, led.last.line, bad>>}) ))
  /\ LET nt == NonTrivial(led) IN
     (nt = {} \/ TLCSet(2, TLCGet(2) \cup {<<led.scn, led.last.line, nt>>}))

ASSUME TLCSet(1, {}) /\ TLCSet(2, {})

Done ==
  /\ PrintT(<<"STATS", Len(Trace), Cardinality(TLCGet(2)), Cardinality(TLCGet(1))>>)
  /\ \A p \in PropIds : PrintT(<<"NT", p, Cardinality({x \in TLCGet(2) : p \in x[3]})>>)
  /\ TLCGet("stats").diameter = Len(Trace) + 1
=============================================================================
