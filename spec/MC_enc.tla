------------------------------- MODULE MC_enc -------------------------------
(***************************************************************************)
(* Encryption at rest (C17): a code-shaped model of the encrypting file    *)
(* system backend at the level of files, run against the reference of      *)
(* KVStore.                                                                *)
(*                                                                         *)
(* A file is what fscache writes for one key: the id of the store key it   *)
(* was sealed with (0 = written without encryption), the cache key it is   *)
(* bound to (the additional data of the seal), a nonce, the value, and     *)
(* whether its bytes were changed behind the store's back.  The store is   *)
(* open in one of three modes (right key, another key, no encryption).     *)
(* Operations: Set / Get / Delete, damaging a file (bit flip, truncation,  *)
(* extension), copying another key's file over it, reopening in another    *)
(* mode, and the transport storing / reading a response on top of the      *)
(* store (its files can be damaged as a whole).  Every outcome is judged   *)
(* with the operators TraceKV uses on recorded executions (Judged), nonces *)
(* never repeat under one key (FreshNonces) and nothing written by an      *)
(* encrypting store is plaintext (NoPlaintext).  Opening with every key    *)
(* source and key length is a one-step family of its own.                  *)
(*                                                                         *)
(* Defects switches reproduce designs the monitors must refute: unbound    *)
(* (the seal does not cover the cache key - the pinned tree), static_nonce,*)
(* no_auth (a damaged file is returned as it decrypts), lenient_keys (any  *)
(* key of at least 16 bytes is cut to size), plain_fallback (an unusable   *)
(* key silently switches encryption off), serve_damaged (the transport     *)
(* serves what it cannot authenticate).                                    *)
(***************************************************************************)
EXTENDS KVStore, TLC, Json, SequencesExt

CONSTANTS Defects, Depth, Family, Export

VARIABLES st, fs, mode, nctr, used, rtf, hist, lastj
vars == <<st, fs, mode, nctr, used, rtf, hist, lastj>>

NK == 2
KeysK == 0..(NK - 1)
Vals == {0, 1}
Modes == {"ok", "wrongkey", "plain"}
Hows == {"flip", "trunc", "extend"}
KeyLens == {0, 1, 15, 16, 17, 23, 24, 25, 31, 32, 33, 48, 64}
Sources == {"opt", "dsn", "env"}

Kid(m) == CASE m = "ok" -> 1 [] m = "wrongkey" -> 2 [] OTHER -> 0
None0 == [kid |-> -1, aad |-> -1, nonce |-> 0, v |-> -1, dmg |-> FALSE]
NoRt == [kid |-> -1, v |-> -1, dmg |-> FALSE]

Init ==
  /\ st = InitStore(NK, TRUE, TRUE, {<<k, k>> : k \in KeysK})
  /\ fs = [k \in KeysK |-> None0]
  /\ mode = "ok" /\ nctr = 0 /\ used = {} /\ rtf = NoRt /\ hist = <<>> /\ lastj = TRUE

Pred(ok, rv) == [ok |-> IF ok THEN 1 ELSE 0, rv |-> rv, keys |-> <<>>, st |-> 0]
Op(o, k, v, how, k2, pred) == [op |-> o, k |-> k, v |-> v, p |-> -1, how |-> how, k2 |-> k2, pred |-> pred]

\* Decrypt as the code does it: the key id, the seal over the bytes, and the cache key as additional data
Opens(f, k) ==
  /\ f.kid = Kid(mode)
  /\ (~f.dmg \/ "no_auth" \in Defects)
  /\ (f.aad = k \/ "unbound" \in Defects)

Set(k, v) ==
  LET n == IF "static_nonce" \in Defects THEN 0 ELSE nctr + 1
      f == [kid |-> Kid(mode), aad |-> k, nonce |-> n, v |-> v, dmg |-> FALSE]
      samect == mode # "plain" /\ fs[k] = f
  IN /\ fs' = [fs EXCEPT ![k] = f]
     /\ nctr' = nctr + 1
     /\ used' = IF mode = "plain" THEN used ELSE used \cup {<<Kid(mode), nctr + 1, n>>}
     /\ st' = DoSet(st, k, v, TRUE)
     /\ lastj' = (SetOK(st, k, TRUE) /\ ((st.enc /\ st.mode # "plain") => ~samect))
     /\ hist' = Append(hist, Op("set", k, v, "", 0, Pred(TRUE, -1)))
     /\ UNCHANGED <<mode, rtf>>

Get(k) ==
  LET f == fs[k]
      ok == f.kid >= 0 /\ (mode = "plain" \/ Opens(f, k))
      nx == f.kid < 0
      rv == IF ~ok THEN -1
            ELSE IF mode = "plain" THEN (IF f.kid = 0 /\ ~f.dmg THEN f.v ELSE -1)
            ELSE IF f.dmg THEN -1 ELSE f.v
  IN /\ lastj' = (GetOK(st, k, ok, nx, rv, 0) /\ GetSecretOK(st, k, ok, rv))
     /\ hist' = Append(hist, Op("get", k, 0, "", 0, Pred(ok, rv)))
     /\ UNCHANGED <<st, fs, mode, nctr, used, rtf>>

Del(k) ==
  LET ok == fs[k].kid >= 0 IN
  /\ fs' = [fs EXCEPT ![k] = None0]
  /\ st' = DoDel(st, k, ok)
  /\ lastj' = DelOK(st, k, ok, ~ok)
  /\ hist' = Append(hist, Op("del", k, 0, "", 0, Pred(ok, -1)))
  /\ UNCHANGED <<mode, nctr, used, rtf>>

Tamper(k, how) ==
  /\ fs[k].kid >= 0
  /\ fs' = [fs EXCEPT ![k].dmg = TRUE]
  /\ st' = DoTamper(st, k, how, 0)
  /\ lastj' = TRUE
  /\ hist' = Append(hist, Op("tamper", k, 0, how, 0, Pred(TRUE, -1)))
  /\ UNCHANGED <<mode, nctr, used, rtf>>

Swap(k, k2) ==
  /\ k # k2 /\ fs[k].kid >= 0 /\ fs[k2].kid >= 0
  /\ fs' = [fs EXCEPT ![k] = fs[k2]]
  /\ st' = DoTamper(st, k, "swap", k2)
  /\ lastj' = TRUE
  /\ hist' = Append(hist, Op("tamper", k, 0, "swap", k2, Pred(TRUE, -1)))
  /\ UNCHANGED <<mode, nctr, used, rtf>>

Reopen(m) ==
  /\ mode' = m
  /\ st' = DoMode(st, m)
  /\ lastj' = TRUE
  /\ hist' = Append(hist, Op(CASE m = "ok" -> "reopen" [] m = "wrongkey" -> "reopen_wrongkey" [] OTHER -> "reopen_plain", 0, 0, "", 0, Pred(TRUE, -1)))
  /\ UNCHANGED <<fs, nctr, used, rtf>>

\* the transport on top of the store: the response body is value v; a later read fetches value 100 + (position) when it
\* cannot use what is stored
RtStore(v) ==
  /\ rtf' = [kid |-> Kid(mode), v |-> v, dmg |-> FALSE]
  /\ st' = DoRtStore(st, v)
  /\ lastj' = TRUE
  /\ hist' = Append(hist, Op("rt_store", 0, v, "", 0, Pred(TRUE, -1)))
  /\ UNCHANGED <<fs, mode, nctr, used>>

RtGet ==
  LET usable == rtf.kid >= 0 /\ rtf.kid = Kid(mode) /\ (~rtf.dmg \/ "serve_damaged" \in Defects)
      fresh  == 100 + Len(hist)
      rv     == IF usable THEN rtf.v ELSE fresh
      calls  == IF usable THEN 0 ELSE 1
  IN /\ rtf' = IF usable THEN rtf ELSE [kid |-> Kid(mode), v |-> fresh, dmg |-> FALSE]
     /\ st' = IF usable THEN st ELSE DoRtStore(st, fresh)
     /\ lastj' = RtGetOK(st, TRUE, rv, calls)
     /\ hist' = Append(hist, Op("rt_get", 0, 0, "", 0, [ok |-> 1, rv |-> rv, keys |-> <<>>, st |-> calls]))
     /\ UNCHANGED <<fs, mode, nctr, used>>

TamperAll(how) ==
  /\ rtf.kid >= 0 \/ \E k \in KeysK : fs[k].kid >= 0
  /\ fs' = [k \in KeysK |-> IF fs[k].kid >= 0 THEN [fs[k] EXCEPT !.dmg = TRUE] ELSE fs[k]]
  /\ rtf' = IF rtf.kid >= 0 THEN [rtf EXCEPT !.dmg = TRUE] ELSE rtf
  /\ st' = DoTamperAll(st, {}, FALSE)
  /\ lastj' = TRUE
  /\ hist' = Append(hist, Op("tamper_all", 0, 0, how, 0, Pred(TRUE, -1)))
  /\ UNCHANGED <<mode, nctr, used>>

\* switching encryption on: every source of the key, every key length
OpenEnc(src, n) ==
  LET usable == UsableKeyLen(n) \/ ("lenient_keys" \in Defects /\ n >= 16)
      ok == usable \/ "plain_fallback" \in Defects
      plain == ~usable /\ ok
  IN /\ lastj' = ((~UsableKeyLen(n) => ~ok) /\ (UsableKeyLen(n) => ok /\ ~plain))
     /\ hist' = Append(hist, [op |-> "open_enc", k |-> 0, v |-> 0, p |-> -1, how |-> src \o "_len:" \o ToString(n), k2 |-> 0,
                              pred |-> Pred(ok, -1)])
     /\ UNCHANGED <<st, fs, mode, nctr, used, rtf>>

Next ==
  IF Family = "open" THEN hist = <<>> /\ \E src \in Sources, n \in KeyLens : OpenEnc(src, n)
  ELSE
  /\ Len(hist) < Depth
  /\ \/ \E k \in KeysK, v \in Vals : Set(k, v)
     \/ \E k \in KeysK : Get(k) \/ Del(k)
     \/ \E k \in KeysK, how \in Hows : Tamper(k, how)
     \/ \E k \in KeysK, k2 \in KeysK : Swap(k, k2)
     \/ \E m \in Modes : Reopen(m)
     \/ (Family = "rt" /\ (RtGet \/ (\E v \in Vals : RtStore(v)) \/ (\E how \in Hows : TamperAll(how))))

Spec == Init /\ [][Next]_vars

\* every outcome of the model passes the judgement TraceKV applies to the code
Judged == lastj
\* no nonce is used twice under one key
FreshNonces == \A a, b \in used : a[1] = b[1] /\ a[3] = b[3] => a[2] = b[2]
\* an encrypting store never leaves a plaintext file behind
NoPlaintext == \A k \in KeysK : fs[k].kid = 0 => st.file[k].wm = "plain"
\* the reference and the model agree on which files exist
SameFiles == \A k \in KeysK : (fs[k].kid >= 0) = (st.file[k].own >= 0)

Complete == IF Family = "open" THEN Len(hist) = 1 ELSE Len(hist) = Depth
\* sequences in which the store is only ever used as a plain map are the business of MC_kv
Interesting == \E i \in 1..Len(hist) : hist[i].op \notin {"set", "get", "del", "reopen"}
Exported == Complete /\ Export /\ Interesting => PrintT(ToJson([ops |-> hist]))
=============================================================================
