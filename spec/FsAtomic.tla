------------------------------ MODULE FsAtomic ------------------------------
(***************************************************************************)
(* File-level steps of fscache's set / get / delete on ONE key under       *)
(* concurrency, write failure and process kill (C15).                      *)
(*                                                                         *)
(* WriteMode = "inplace": the pinned tree - open the live file with        *)
(*   truncation, write, sync.  WriteMode = "rename": the repaired tree -   *)
(*   create a private temporary file, write, sync, close, rename over the  *)
(*   live name.  TmpNames = "shared" models a repair that would reuse one  *)
(*   temporary name for all writers.                                       *)
(* A value is a sequence of Chunks pieces <<v, i>>; a reader binds the     *)
(* inode at open and reads it in one or more steps.                        *)
(* TLC must refute NoTornRead for "inplace" (and for shared temp names)    *)
(* and accept it for "rename" with unique names.                           *)
(* WriteMode = "unlink_rename" models a variant that removes the live name *)
(* before renaming the finished temporary file over it: no torn read, but  *)
(* a reader (or a kill) in between finds the key absent although a Set had *)
(* completed and nobody deleted it - refuted through NoLostValue.          *)
(***************************************************************************)
EXTENDS Integers, Sequences, FiniteSets, TLC

CONSTANTS Writers, Readers, Deleters, Vals, Chunks, WriteMode, TmpNames,
          Touch    \* update_mtime: "off"; "strict" = a failing mtime update fails the Get (the pinned tree); "lenient" = it is ignored

VARIABLES dir,     \* name -> inode id (0: no such name); names: "live" and temporary names
          ino,     \* inode id -> sequence of pieces
          next,    \* next free inode id
          wpc, wval, wino, wn,   \* writers: pc, value, bound inode, pieces written
          rpc, rino, rbuf,       \* readers: pc, bound inode, buffer
          dpc,                   \* deleters
          results, ok            \* completed Gets: <<reader, value or NX>>; writers whose Set returned success

vars == <<dir, ino, next, wpc, wval, wino, wn, rpc, rino, rbuf, dpc, results, ok>>

Full(v) == [i \in 1..Chunks |-> <<v, i>>]
NX == <<<<0, 0>>>>          \* "the key does not exist" (values are positive)
ERR == <<<<0, 2>>>>         \* an error that is neither a value nor "does not exist"
LOST == <<<<0, 1>>>>        \* "does not exist" answered although a Set had completed and no Delete had begun
Live == <<"live", 0>>
Tmp(w) == IF TmpNames = "shared" THEN <<"tmp", 0>> ELSE <<"tmp", w>>
Names == {Live, <<"tmp", 0>>} \cup {<<"tmp", w>> : w \in Writers}

Init ==
  /\ dir = [n \in Names |-> 0] /\ ino = <<>> /\ next = 1
  /\ wpc = [w \in Writers |-> "idle"] /\ wval = [w \in Writers |-> CHOOSE v \in Vals : TRUE]
  /\ wino = [w \in Writers |-> 0] /\ wn = [w \in Writers |-> 0]
  /\ rpc = [r \in Readers |-> "idle"] /\ rino = [r \in Readers |-> 0] /\ rbuf = [r \in Readers |-> <<>>]
  /\ dpc = [d \in Deleters |-> "idle"]
  /\ results = {} /\ ok = {}

\* ---- writer -----------------------------------------------------------
SetBegin(w, v) ==
  /\ wpc[w] = "idle"
  /\ wpc' = [wpc EXCEPT ![w] = "create"] /\ wval' = [wval EXCEPT ![w] = v]
  /\ UNCHANGED <<dir, ino, next, wino, wn, rpc, rino, rbuf, dpc, results, ok>>

\* inplace: open(O_CREAT|O_TRUNC) on the live name; rename: open(O_CREAT|O_EXCL) on a temporary name
Create(w) ==
  /\ wpc[w] = "create"
  /\ IF WriteMode = "inplace"
       THEN IF dir[Live] # 0
              THEN /\ ino' = [ino EXCEPT ![dir[Live]] = <<>>]        \* truncates the live inode in place
                   /\ wino' = [wino EXCEPT ![w] = dir[Live]] /\ UNCHANGED <<dir, next>>
            ELSE /\ ino' = ino @@ (next :> <<>>) /\ dir' = [dir EXCEPT ![Live] = next]
                 /\ wino' = [wino EXCEPT ![w] = next] /\ next' = next + 1
     ELSE IF dir[Tmp(w)] # 0
            THEN \* O_EXCL on an existing (shared) temporary name: the pinned-style repair would truncate it
                 /\ ino' = [ino EXCEPT ![dir[Tmp(w)]] = <<>>] /\ wino' = [wino EXCEPT ![w] = dir[Tmp(w)]] /\ UNCHANGED <<dir, next>>
          ELSE /\ ino' = ino @@ (next :> <<>>) /\ dir' = [dir EXCEPT ![Tmp(w)] = next]
               /\ wino' = [wino EXCEPT ![w] = next] /\ next' = next + 1
  /\ wpc' = [wpc EXCEPT ![w] = "write"] /\ wn' = [wn EXCEPT ![w] = 0]
  /\ UNCHANGED <<wval, rpc, rino, rbuf, dpc, results, ok>>

WriteChunk(w) ==
  /\ wpc[w] = "write" /\ wn[w] < Chunks
  /\ ino' = [ino EXCEPT ![wino[w]] = Append(ino[wino[w]], <<wval[w], wn[w] + 1>>)]
  /\ wn' = [wn EXCEPT ![w] = wn[w] + 1]
  /\ UNCHANGED <<dir, next, wpc, wval, wino, rpc, rino, rbuf, dpc, results, ok>>

\* the write fails after some bytes (EFBIG / ENOSPC): Set returns an error; the repaired code removes its temp file
WriteFails(w) ==
  /\ wpc[w] = "write" /\ wn[w] < Chunks
  /\ wpc' = [wpc EXCEPT ![w] = "failed"]
  /\ dir' = IF WriteMode = "rename" /\ dir[Tmp(w)] = wino[w] THEN [dir EXCEPT ![Tmp(w)] = 0] ELSE dir
  /\ UNCHANGED <<ino, next, wval, wino, wn, rpc, rino, rbuf, dpc, results, ok>>

WriteDone(w) ==
  /\ wpc[w] = "write" /\ wn[w] = Chunks
  /\ IF WriteMode = "inplace"
       THEN wpc' = [wpc EXCEPT ![w] = "done"] /\ ok' = ok \cup {w} /\ UNCHANGED dir
     ELSE wpc' = [wpc EXCEPT ![w] = IF WriteMode = "unlink_rename" THEN "unlink" ELSE "rename"] /\ UNCHANGED <<dir, ok>>
  /\ UNCHANGED <<ino, next, wval, wino, wn, rpc, rino, rbuf, dpc, results>>

\* only in the "unlink_rename" variant: the live name goes away first
Unlink(w) ==
  /\ wpc[w] = "unlink"
  /\ dir' = [dir EXCEPT ![Live] = 0] /\ wpc' = [wpc EXCEPT ![w] = "rename"]
  /\ UNCHANGED <<ino, next, wval, wino, wn, rpc, rino, rbuf, dpc, results, ok>>

Rename(w) ==
  /\ wpc[w] = "rename"
  /\ dir' = [dir EXCEPT ![Live] = dir[Tmp(w)], ![Tmp(w)] = 0]
  /\ wpc' = [wpc EXCEPT ![w] = "done"] /\ ok' = ok \cup {w}
  /\ UNCHANGED <<ino, next, wval, wino, wn, rpc, rino, rbuf, dpc, results>>

\* the writing process dies at any point; whatever is on disk stays
Kill(w) ==
  /\ wpc[w] \in {"create", "write", "unlink", "rename"}
  /\ wpc' = [wpc EXCEPT ![w] = "dead"]
  /\ UNCHANGED <<dir, ino, next, wval, wino, wn, rpc, rino, rbuf, dpc, results, ok>>

\* ---- reader -----------------------------------------------------------
GetOpen(r) ==
  /\ rpc[r] = "idle"
  /\ IF dir[Live] = 0
       THEN rpc' = [rpc EXCEPT ![r] = "done"] /\ results' = results \cup {<<r, IF ok # {} /\ \A d \in Deleters : dpc[d] = "idle" THEN LOST ELSE NX>>}
            /\ UNCHANGED <<rino, rbuf>>
     ELSE rpc' = [rpc EXCEPT ![r] = "read"] /\ rino' = [rino EXCEPT ![r] = dir[Live]] /\ rbuf' = [rbuf EXCEPT ![r] = <<>>]
          /\ UNCHANGED results
  /\ UNCHANGED <<dir, ino, next, wpc, wval, wino, wn, dpc, ok>>

\* one read(2): everything the inode holds beyond what was read so far
ReadSome(r) ==
  /\ rpc[r] = "read" /\ Len(rbuf[r]) < Len(ino[rino[r]])
  /\ rbuf' = [rbuf EXCEPT ![r] = rbuf[r] \o SubSeq(ino[rino[r]], Len(rbuf[r]) + 1, Len(ino[rino[r]]))]
  /\ UNCHANGED <<dir, ino, next, wpc, wval, wino, wn, rpc, rino, dpc, results, ok>>

ReadEOF(r) ==
  /\ rpc[r] = "read" /\ Len(rbuf[r]) >= Len(ino[rino[r]])
  /\ IF Touch = "off"
       THEN rpc' = [rpc EXCEPT ![r] = "done"] /\ results' = results \cup {<<r, rbuf[r]>>}
     ELSE rpc' = [rpc EXCEPT ![r] = "touch"] /\ UNCHANGED results
  /\ UNCHANGED <<dir, ino, next, wpc, wval, wino, wn, rino, rbuf, dpc, ok>>

\* update_mtime: after the value has been read, the file is touched BY NAME - the name may be gone by now
\* (or stand for another inode: harmless, the newer file gets the newer time)
TouchLive(r) ==
  /\ rpc[r] = "touch"
  /\ rpc' = [rpc EXCEPT ![r] = "done"]
  /\ results' = results \cup {<<r, IF dir[Live] = 0 /\ Touch = "strict" THEN ERR ELSE rbuf[r]>>}
  /\ UNCHANGED <<dir, ino, next, wpc, wval, wino, wn, rino, rbuf, dpc, ok>>

\* ---- deleter ----------------------------------------------------------
Delete(d) ==
  /\ dpc[d] = "idle"
  /\ dir' = [dir EXCEPT ![Live] = 0] /\ dpc' = [dpc EXCEPT ![d] = "done"]
  /\ UNCHANGED <<ino, next, wpc, wval, wino, wn, rpc, rino, rbuf, results, ok>>

Next ==
  \/ \E w \in Writers : (\E v \in Vals : SetBegin(w, v)) \/ Create(w) \/ WriteChunk(w) \/ WriteFails(w) \/ WriteDone(w) \/ Unlink(w) \/ Rename(w) \/ Kill(w)
  \/ \E r \in Readers : GetOpen(r) \/ ReadSome(r) \/ ReadEOF(r) \/ TouchLive(r)
  \/ \E d \in Deleters : Delete(d)

Spec == Init /\ [][Next]_vars

\* a completed Get returns, in full, a value that was passed to some Set - or reports the key absent
NoTornRead == \A res \in results : res[2] = NX \/ \E v \in Vals : res[2] = Full(v)
\* a key that some Set has stored and nobody deletes is never reported absent (linearisable with the completed Set)
NoLostValue == \A res \in results : res[2] # LOST
\* ... and is still there when every writer is at rest or dead
LiveKept == (\A w \in Writers : wpc[w] \in {"idle", "done", "failed", "dead"}) /\ ok # {} /\ (\A d \in Deleters : dpc[d] = "idle")
              => dir[Live] # 0
\* what is on disk under the live name when nobody is writing is a complete value
LiveComplete == (\A w \in Writers : wpc[w] \in {"idle", "done", "failed", "dead"}) /\ dir[Live] # 0
                  => \E v \in Vals : ino[dir[Live]] = Full(v)
=============================================================================
