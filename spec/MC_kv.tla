------------------------------- MODULE MC_kv -------------------------------
(***************************************************************************)
(* Exhaustive operation sequences over the reference map of KVStore (C14): *)
(* every sequence of Set / Get / Delete / Keys / Reopen up to Depth over   *)
(* three keys that are prefixes of each other and two values.  TLC exports *)
(* each sequence with the outcome the map prescribes; the harness renders  *)
(* the abstract keys to adversarial concrete keys (fragment and file-name  *)
(* boundaries, arbitrary bytes) and replays it on every backend.           *)
(***************************************************************************)
EXTENDS KVStore, TLC, Json, SequencesExt

CONSTANTS Depth, Export

VARIABLES st, hist
vars == <<st, hist>>

NK == 3
KeysK == 0..(NK - 1)
Vals == {0, 1}
\* key i is a prefix of key j for i <= j
Pre == {<<i, j>> : i \in KeysK, j \in KeysK} \cap {p \in KeysK \X KeysK : p[1] <= p[2]}

Init == st = InitStore(NK, FALSE, TRUE, Pre) /\ hist = <<>>

ValOf(k) == CHOOSE v \in st.cand[k] : TRUE
KeysWith(p) == {k \in KeysK : (p = -1 \/ <<p, k>> \in st.pre) /\ Present(st, k)}

Next ==
  /\ Len(hist) < Depth
  /\ \/ \E k \in KeysK, v \in Vals :
          /\ st' = DoSet(st, k, v, TRUE)
          /\ hist' = Append(hist, [op |-> "set", k |-> k, v |-> v, p |-> -1, pred |-> [ok |-> 1, rv |-> -1, keys |-> <<>>]])
     \/ \E k \in KeysK :
          /\ st' = st
          /\ hist' = Append(hist, [op |-> "get", k |-> k, v |-> 0, p |-> -1,
                                   pred |-> [ok |-> IF Present(st, k) THEN 1 ELSE 0, rv |-> ValOf(k), keys |-> <<>>]])
     \/ \E k \in KeysK :
          /\ st' = DoDel(st, k, Present(st, k))
          /\ hist' = Append(hist, [op |-> "del", k |-> k, v |-> 0, p |-> -1, pred |-> [ok |-> IF Present(st, k) THEN 1 ELSE 0, rv |-> -1, keys |-> <<>>]])
     \/ \E p \in KeysK \cup {-1} :
          /\ st' = st
          /\ hist' = Append(hist, [op |-> "keys", k |-> 0, v |-> 0, p |-> p, pred |-> [ok |-> 1, rv |-> -1, keys |-> SetToSortSeq(KeysWith(p), <)]])
     \/ /\ st' = st
        /\ hist' = Append(hist, [op |-> "reopen", k |-> 0, v |-> 0, p |-> -1, pred |-> [ok |-> 1, rv |-> -1, keys |-> <<>>]])

Spec == Init /\ [][Next]_vars

\* every complete sequence is exported once
Exported == Len(hist) = Depth /\ Export => PrintT(ToJson([ops |-> hist]))
\* the map keeps exactly one value per key under complete operations
OneValue == \A k \in KeysK : Cardinality(st.cand[k]) = 1
=============================================================================
