------------------------------ MODULE Rfc9111 ------------------------------
(***************************************************************************)
(* Oracle kernel: RFC 9111 / RFC 5861 / RFC 8246 decisions as pure         *)
(* operators over abstract records.  Written as an ENVELOPE: "May..."      *)
(* operators are the upper bound of what a cache may do, "Must..." the     *)
(* lower bound; wherever the RFCs or the property texts leave a choice     *)
(* both outcomes are inside the envelope (DESIGN.md section 4).            *)
(*                                                                         *)
(* A representation record r has the header-derived fields                 *)
(*   st, ccp, ma, fl, swr, sie, ncf, date, exp, lm                         *)
(* and the age base  age (upstream Age header), reqT, respT.               *)
(* A request record rq has  m, range, ma, mf, ms, sie, fl, sel, inm, ims.  *)
(* Numbers: None = -1 (absent), Invalid = -2, NoArg = -3, saturating at    *)
(* CAP = 10^9 which stands for "at least 2^31 seconds".                    *)
(***************************************************************************)
EXTENDS Integers, FiniteSets, Sequences

None    == -1
Invalid == -2
NoArg   == -3
CAP     == 1000000000

MinI(a, b) == IF a < b THEN a ELSE b
MaxI(a, b) == IF a > b THEN a ELSE b
Sat(x)     == IF x > CAP THEN CAP ELSE x
SeqSet(s)  == {s[i] : i \in 1..Len(s)}

\* RFC 9111 4.2.2 / RFC 9110 15.1: status codes that allow heuristic freshness
HeuristicStatus == {200, 203, 204, 206, 300, 301, 308, 404, 405, 410, 414, 501}
\* codes that no cache can claim to understand (unassigned)
UnassignedStatus == {288, 299, 399, 499, 599}
SafeMethods == {"GET", "HEAD", "OPTIONS", "TRACE", "PROPFIND", "REPORT", "SEARCH", "QUERY"}
SieStatuses == {500, 502, 503, 504}

Has(r, f) == f \in SeqSet(r.fl)

(***************************************************************************)
(* Current age, RFC 9111 4.2.3.  An invalid Age header is ignored.         *)
(***************************************************************************)
AgeVal(a) == IF a >= 0 THEN a ELSE 0

CurrentAgeA(r, a, t) ==
  LET apparent  == MaxI(0, Sat(r.respT - r.date))
      delay     == MaxI(0, r.respT - r.reqT)
      corrected == Sat(AgeVal(a) + Sat(delay))
      initial   == MaxI(apparent, corrected)
      resident  == MaxI(0, Sat(t - r.respT))
  IN Sat(initial + resident)

CurrentAge(r, t) == CurrentAgeA(r, r.age, t)

(***************************************************************************)
(* Freshness lifetime, RFC 9111 4.2.1 - 4.2.2, as the SET of admissible    *)
(* readings.  max-age=0 is a value, not "absent".  An invalid max-age may  *)
(* be treated as 0 or ignored (4.2.1: "encouraged to consider stale").     *)
(***************************************************************************)
ExpLife(r) == IF r.exp = Invalid THEN 0 ELSE Sat(MaxI(0, r.exp - r.date))

HeurAllowed(r) == r.lm >= 0 /\ r.exp = None /\ (r.st \in HeuristicStatus \/ Has(r, "public"))

\* does age a count as fresh under reading L (an explicit number of seconds)?
\* heuristic freshness is the test 10 * a < Date - Last-Modified
NoMaxAgeFresh(r, a, lim) ==
  IF r.exp # None THEN a < (IF lim >= 0 THEN MinI(ExpLife(r), lim) ELSE ExpLife(r))
  ELSE IF HeurAllowed(r) /\ r.date > r.lm
       THEN (a < 100000000 /\ 10 * a < r.date - r.lm) /\ (lim < 0 \/ a < lim)
  ELSE FALSE

\* "a is fresh under SOME admissible lifetime"; lim = request max-age or None
MayFreshAge(r, a, lim) ==
  IF r.ccp = 1 /\ r.ma >= 0 THEN a < (IF lim >= 0 THEN MinI(r.ma, lim) ELSE r.ma)
  ELSE IF r.ccp = 1 /\ r.ma = Invalid THEN NoMaxAgeFresh(r, a, lim)    \* lenient reading
  ELSE NoMaxAgeFresh(r, a, lim)

\* "a is fresh under EVERY admissible lifetime"
MustFreshAge(r, a, lim) ==
  IF r.ccp = 1 /\ r.ma >= 0 THEN a < (IF lim >= 0 THEN MinI(r.ma, lim) ELSE r.ma)
  ELSE IF r.ccp = 1 /\ r.ma = Invalid THEN FALSE                       \* strict reading: stale
  ELSE IF r.exp # None THEN a < (IF lim >= 0 THEN MinI(ExpLife(r), lim) ELSE ExpLife(r))
  ELSE IF r.lm >= 0 /\ r.st \in HeuristicStatus /\ r.date > r.lm
       THEN (a < 100000000 /\ 10 * (a + 1) < r.date - r.lm) /\ (lim < 0 \/ a < lim)
  ELSE FALSE

\* the response's own lifetime, smallest and largest admissible reading
\* (heuristic: a tenth of Date - Last-Modified, rounded either way)
HeurLife(r) == IF r.date > r.lm THEN (r.date - r.lm) \div 10 ELSE 0
OwnLifeMin(r) ==
  IF r.ccp = 1 /\ r.ma >= 0 THEN r.ma
  ELSE IF r.ccp = 1 /\ r.ma = Invalid THEN 0
  ELSE IF r.exp # None THEN ExpLife(r)
  ELSE IF HeurAllowed(r) /\ r.st \in HeuristicStatus THEN HeurLife(r)
  ELSE 0
OwnLifeMax(r) ==
  IF r.ccp = 1 /\ r.ma >= 0 THEN r.ma
  ELSE IF r.exp # None THEN ExpLife(r)
  ELSE IF HeurAllowed(r) THEN HeurLife(r) + 1
  ELSE 0

RqLim(rq) == IF rq.ma >= 0 THEN rq.ma ELSE None
EffLifeMax(r, rq) == IF rq.ma >= 0 THEN MinI(OwnLifeMax(r), rq.ma) ELSE OwnLifeMax(r)
EffLifeMin(r, rq) == IF rq.ma >= 0 THEN MinI(OwnLifeMin(r), rq.ma) ELSE OwnLifeMin(r)

\* both sides saturated: neither "fresh" nor "stale" can be demanded
SatGap(r, a) == a >= CAP

(***************************************************************************)
(* May the response be used without validation as far as FRESHNESS goes    *)
(* (C01)?  Exceptions: max-stale, only-if-cached, the response's own       *)
(* stale-while-revalidate window.  Boundaries "exactly N" are inside.      *)
(***************************************************************************)
\* min-fresh: a huge min-fresh against a huge lifetime compares two numbers of which only "at least 2^31" is known
MayFresh(r, a, rq) ==
  /\ MayFreshAge(r, a, RqLim(rq))
  /\ \/ rq.mf < 1
     \/ MayFreshAge(r, Sat(a + rq.mf - 1), RqLim(rq))
     \/ (Sat(a + rq.mf) >= CAP /\ EffLifeMax(r, rq) >= CAP)

MaxStaleCovers(r, a, rq) ==
  \/ rq.ms = NoArg
  \/ rq.ms = Invalid                       \* unparsable argument: either reading
  \/ (rq.ms >= 0 /\ a - EffLifeMax(r, rq) <= rq.ms)

\* (an age and a window that are both "at least 2^31": undetermined)
InOwnSwr(r, a) == r.ccp = 1 /\ r.swr >= 0 /\ (a - OwnLifeMax(r) < r.swr \/ (a >= CAP /\ r.swr >= CAP))

StalenessAllowed(r, a, rq) ==
  \/ MayFresh(r, a, rq)
  \* an age of "at least 2^31" against a lifetime (or tolerated staleness) that is itself "at least 2^31": undetermined.
  \* Against a lifetime that is a known number such an age is simply too old.
  \/ (SatGap(r, a) /\ (EffLifeMax(r, rq) >= CAP \/ rq.ms >= CAP \/ rq.ms = NoArg))
  \/ MaxStaleCovers(r, a, rq)
  \/ Has(rq, "only-if-cached")
  \/ InOwnSwr(r, a)

(***************************************************************************)
(* Does reuse require validation (C02)?                                    *)
(***************************************************************************)
UnqualifiedNoCache(r) == r.ccp = 1 /\ Has(r, "no-cache") /\ r.ncf = 0
DefinitelyStale(r, a) == ~SatGap(r, a) /\ a >= OwnLifeMax(r) /\ ~(r.ccp = 1 /\ r.ma = Invalid /\ FALSE)
MustRevalidateApplies(r, a) == r.ccp = 1 /\ Has(r, "must-revalidate") /\ DefinitelyStale(r, a)
RequestMaxAgeExceeded(r, a, rq) ==
  rq.ma >= 0 /\ a > rq.ma /\ ~SatGap(r, a) /\ rq.ms = None /\ ~Has(rq, "only-if-cached")

NeedsValidation(r, a, rq) ==
  \/ UnqualifiedNoCache(r)
  \/ MustRevalidateApplies(r, a)
  \/ Has(rq, "no-cache")
  \/ RequestMaxAgeExceeded(r, a, rq)

(***************************************************************************)
(* Must the stored response be used without contacting the origin (C09)?   *)
(* Fresh by more than a second under every reading, nothing demanding      *)
(* validation.                                                             *)
(***************************************************************************)
RequestPlain(rq) == rq.m = "GET" /\ rq.range = 0
RequestDemandsNothing(rq) ==
  /\ RequestPlain(rq)
  /\ ~Has(rq, "no-cache") /\ ~Has(rq, "no-store")
  /\ rq.pragma = 0
  /\ rq.ma # Invalid /\ rq.mf # Invalid
  /\ rq.inm = 0 /\ rq.ims = 0

MustFresh(r, a, rq) ==
  /\ ~SatGap(r, Sat(a + 1))
  /\ MustFreshAge(r, Sat(a + 1), RqLim(rq))
  /\ (rq.mf < 0 \/ MustFreshAge(r, Sat(a + 1 + rq.mf), RqLim(rq)))

MustReuseRep(r, a, rq) ==
  /\ RequestDemandsNothing(rq)
  /\ ~(r.ccp = 1 /\ Has(r, "no-cache"))
  /\ MustFresh(r, a, rq)

(***************************************************************************)
(* Storability (C06): responses that must not be stored.                   *)
(***************************************************************************)
HasExplicit(r) == (r.ccp = 1 /\ r.ma # None) \/ r.exp # None
MustNotStore(rq, r, bodyIncomplete) ==
  \/ Has(rq, "no-store")
  \/ (r.ccp = 1 /\ Has(r, "no-store") /\ ~Has(r, "must-understand"))
  \/ rq.m # "GET" \/ rq.range = 1
  \/ r.st < 200 \/ r.st \in {206, 304}
  \/ (r.ccp = 1 /\ Has(r, "must-understand") /\ r.st \in UnassignedStatus)
  \/ bodyIncomplete
  \/ (~HasExplicit(r) /\ ~(r.ccp = 1 /\ Has(r, "public")) /\ r.st \notin HeuristicStatus)

(***************************************************************************)
(* stale-if-error (C13, RFC 5861 section 4)                                *)
(***************************************************************************)
SieWindows(r, rq) == (IF r.ccp = 1 /\ r.sie >= 0 THEN {r.sie} ELSE {}) \cup (IF rq.sie >= 0 THEN {rq.sie} ELSE {})
SieForbidden(r, rq) ==
  \/ (r.ccp = 1 /\ Has(r, "must-revalidate"))
  \/ UnqualifiedNoCache(r)
  \/ Has(rq, "no-cache")
\* upper bound: staleness at most N (boundary inside)
MaySie(r, a, rq) == ~SieForbidden(r, rq) /\ \E n \in SieWindows(r, rq) :
                       a - EffLifeMax(r, rq) <= n \/ (SatGap(r, a) /\ (EffLifeMax(r, rq) >= CAP \/ n >= CAP))
\* lower bound: inside the window by more than a second
MustSie(r, a, rq) == ~SieForbidden(r, rq) /\ ~SatGap(r, Sat(a + 2)) /\ \E n \in SieWindows(r, rq) : a + 2 - EffLifeMin(r, rq) < n
=============================================================================
