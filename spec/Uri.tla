-------------------------------- MODULE Uri --------------------------------
(***************************************************************************)
(* URI equivalence for cache keys (C03, C09): RFC 3986 6.2.2 - 6.2.3       *)
(* normalisation as a normal form NF over records of atoms, the            *)
(* code-shaped key function of internal/urlkeyer.go (KeyOf, with the       *)
(* deviations found in the pinned tree as Defects switches), and the       *)
(* enumeration of pairs (a, b) where b is a base URI with up to two        *)
(* components replaced.  TLC checks on every pair that the key function    *)
(* identifies exactly the equivalent URIs, and exports the pair with       *)
(* equiv / gap flags; the harness renders the atoms to text, stores a      *)
(* response for a and requests b.                                          *)
(*                                                                         *)
(* Atoms are literal URI text, except RAWE9 = the raw (unescaped) UTF-8    *)
(* bytes of U+00E9, which TLA+ strings cannot hold, and RAWFF / RAWFE =    *)
(* the single bytes 0xff / 0xfe (not UTF-8 at all) and RAWFFFD = U+FFFD,   *)
(* the character a lossy decoder puts in their place.                      *)
(***************************************************************************)
EXTENDS Integers, Sequences, FiniteSets, TLC, Json

CONSTANTS Defects, Tier, Export

Thorough == Tier = "thorough"

Schemes == {"http", "HTTP", "https"}
\* ("example.com." - the absolute form of the name - is another host as far as RFC 3986 equivalence goes)
Hosts   == {"example.com", "EXAMPLE.com", "example.com.", "example.org", "[::1]", "[::1:8080]", "127.0.0.1"}
Ports   == {"", ":", ":80", ":443", ":8080"}
\* (a.b / a%2Eb: "." is unreserved; a%3Fq=a: an escaped "?" stays part of the path; %2541 / a%252Fb: an escaped "%")
Segs    == {"a", "A", "%61", "~", "%7E", "%7e", "a%2Fb", "a%2fb", "%E9", "%e9", "RAWE9", "%C3%A9", "+", "%2B", "%20", "b",
            "a.b", "a%2Eb", "a%2eb", "a%3Fq=a", "%2541", "a%252Fb"}
Paths   == {<<>>, <<"">>} \cup {<<s>> : s \in Segs} \cup {<<"a", s>> : s \in {"b", "B", ".", "..", ""}}
           \cup {<<".", "a">>, <<"..", "a">>, <<"a", ".", "b">>, <<"a", "..", "b">>, <<"a", "b", "..">>, <<"x", "..", "a">>, <<"a", "", "b">>}
           \* dot segments spelled with escapes: "." is unreserved, so %2E is a dot and these are dot segments as well
           \cup {<<"a", "%2E", "b">>, <<"a", "%2E%2E", "b">>, <<"a", "b", "%2e%2E">>, <<"x", ".%2E", "a">>}
Queries == {"NONE", "q=RAWFF", "q=RAWFE", "q=RAWFFFD", "q=%%341", "q=%4%31", "q=a", "q=A", "q=%61", "q=~", "q=%7e", "q=%7E", "q=%E9", "q=%e9", "q=RAWE9", "q=%C3%A9", "q=a%2Fb", "q=a%2fb", "q=a&r=b", "r=b&q=a", "q=+", "q=%20"}
Frags   == {"", "#frag"}
Users   == {"", "user@"}

U(s, h, p, pa, q, f, u) == [scheme |-> s, host |-> h, port |-> p, path |-> pa, query |-> q, frag |-> f, user |-> u]

Bases ==
  { U("http", "example.com", "", <<"a">>, "NONE", "", ""),
    U("http", "example.com", "", <<"a">>, "q=a", "", ""),
    U("https", "example.com", "", <<"a", "b">>, "NONE", "", ""),
    U("http", "[::1]", ":8080", <<"a">>, "NONE", "", ""),
    U("http", "example.com", "", <<"~">>, "q=~", "", ""),
    U("http", "example.com", "", <<"%E9">>, "q=%E9", "", ""),
    U("http", "example.com", "", <<"a">>, "q=%%341", "", ""),
    U("http", "example.com", "", <<"a">>, "q=RAWFF", "", "") }
  \cup (IF Thorough THEN
    { U("http", "example.com", ":8080", <<>>, "NONE", "", ""),
      U("http", "127.0.0.1", "", <<"a%2Fb">>, "q=a%2Fb", "", ""),
      U("https", "example.com", ":443", <<"a", "..", "b">>, "q=RAWE9", "", ""),
      U("http", "example.com", "", <<"RAWE9">>, "q=%C3%A9", "", ""),
      U("https", "[::1]", "", <<"a", "..", "b">>, "q=RAWFE", "", ""),
      U("http", "EXAMPLE.com", ":80", <<"%7E">>, "q=%7e", "#frag", ""),
      U("HTTP", "example.org", ":", <<"a", "", "b">>, "q=a&r=b", "", ""),
      U("http", "example.com", ":443", <<"a%2fb">>, "q=+", "", ""),
      U("https", "127.0.0.1", ":8080", <<"x", "..", "a">>, "q=%20", "", "user@"),
      U("http", "[::1:8080]", "", <<"">>, "q=RAWFFFD", "", ""),
      U("http", "example.com", "", <<"+">>, "q=%4%31", "", ""),
      U("https", "example.com", "", <<".", "a">>, "NONE", "#frag", "") } ELSE {})

Mut1(a) ==
  {[a EXCEPT !.scheme = v] : v \in Schemes} \cup {[a EXCEPT !.host = v] : v \in Hosts} \cup {[a EXCEPT !.port = v] : v \in Ports}
  \cup {[a EXCEPT !.path = v] : v \in Paths} \cup {[a EXCEPT !.query = v] : v \in Queries}
  \cup {[a EXCEPT !.frag = v] : v \in Frags} \cup {[a EXCEPT !.user = v] : v \in Users}
Mut2(a) == UNION {Mut1(b) : b \in Mut1(a)}

(***************************************************************************)
(* normal form                                                             *)
(***************************************************************************)
Lower(s) == CASE s = "HTTP" -> "http" [] s = "EXAMPLE.com" -> "example.com" [] OTHER -> s
DefaultPort(scheme) == IF Lower(scheme) = "http" THEN ":80" ELSE ":443"
PortNF(scheme, p) == IF p \in {"", ":", DefaultPort(scheme)} THEN "" ELSE p

\* percent-encoding: hex digits upper case, escaped unreserved ASCII decoded
PctNF(s) == CASE s = "%61" -> "a" [] s \in {"%7E", "%7e"} -> "~" [] s = "a%2fb" -> "a%2Fb" [] s = "%e9" -> "%E9"
              [] s \in {"a%2Eb", "a%2eb"} -> "a.b"
              [] s = "%2E" -> "." [] s \in {"%2E%2E", "%2e%2E", ".%2E"} -> ".."
              [] s = "q=%61" -> "q=a" [] s \in {"q=%7e", "q=%7E"} -> "q=~" [] s = "q=a%2fb" -> "q=a%2Fb" [] s = "q=%e9" -> "q=%E9"
              [] OTHER -> s
\* in a path, Go sends raw non-ASCII bytes escaped; in a query it sends them raw
SegNF(s) == IF s = "RAWE9" THEN "%C3%A9" ELSE PctNF(s)

\* RFC 3986 5.2.4 on a sequence of segments; dirs is the output so far
RECURSIVE Dots(_, _)
Dots(in, out) ==
  IF in = <<>> THEN out
  ELSE LET s == Head(in)  last == Len(in) = 1 IN
       IF s = "." THEN Dots(Tail(in), IF last THEN Append(out, "") ELSE out)
       ELSE IF s = ".." THEN Dots(Tail(in), LET o2 == IF Len(out) > 0 THEN SubSeq(out, 1, Len(out) - 1) ELSE out IN
                                            IF last THEN Append(o2, "") ELSE o2)
       ELSE Dots(Tail(in), Append(out, s))
PathNF(p) == LET d == Dots([i \in 1..Len(p) |-> SegNF(p[i])], <<>>) IN IF d = <<>> THEN <<"">> ELSE d

NF(a) == [scheme |-> Lower(a.scheme), host |-> Lower(a.host), port |-> PortNF(a.scheme, a.port),
          path |-> PathNF(a.path), query |-> PctNF(a.query)]

Equiv(a, b) == NF(a) = NF(b)
\* relations the property leaves open: userinfo, and "?" with an empty query is not modelled
Gap(a, b) == a.user # b.user

(***************************************************************************)
(* internal/urlkeyer.go makeURLKey, code-shaped                            *)
(***************************************************************************)
KHost(h) == IF "strip_brackets" \in Defects
              THEN (CASE h = "[::1]" -> "::1" [] h = "[::1:8080]" -> "::1:8080" [] OTHER -> Lower(h))
            ELSE Lower(h)
\* with the brackets stripped, host and port are simply concatenated
KHostPort(a) == LET p == PortNF(a.scheme, a.port) IN
                IF "strip_brackets" \in Defects /\ a.host = "[::1]" /\ p = ":8080" THEN <<"::1:8080", "">> ELSE <<KHost(a.host), p>>
\* a "%" that starts no valid escape (possible in a query) must stop all rewriting: the pinned normaliser turned
\* both "%%341" and "%4%31" into "%41"
KPct(s) == IF "latin1_unreserved" \in Defects /\ s \in {"q=%E9", "q=%e9"} THEN "q=RAWE9"
           ELSE IF "rewrite_malformed" \in Defects /\ s \in {"q=%%341", "q=%4%31"} THEN "q=%41"
           ELSE PctNF(s)
\* the pinned tree removed dot segments (url.ResolveReference, which looks at the escaped path) BEFORE it decoded escaped
\* unreserved characters, so a segment "%2E%2E" survived as ".."
KPath(p) == IF "dots_before_decode" \in Defects
              THEN LET d == Dots(p, <<>>) IN IF d = <<>> THEN <<"">> ELSE [i \in 1..Len(d) |-> SegNF(d[i])]
            ELSE PathNF(p)
KeyOf(a) == [scheme |-> Lower(a.scheme), hostport |-> KHostPort(a), path |-> KPath(a.path), query |-> KPct(a.query)]

(***************************************************************************)
(* enumeration                                                             *)
(***************************************************************************)
VARIABLES a, b, st
vars == <<a, b, st>>

None0 == U("", "", "", <<>>, "", "", "")
Init == a = None0 /\ b = None0 /\ st = "start"
Next ==
  /\ st = "start"
  /\ \E x \in Bases : \E y \in Mut2(x) :
       /\ a' = x /\ b' = y /\ st' = "pair"
       /\ (Export => PrintT(ToJson([a |-> x, b |-> y, equiv |-> Equiv(x, y), gap |-> Gap(x, y)])))
Spec == Init /\ [][Next]_vars

\* the key function identifies exactly the equivalent URIs
KeyExact == st = "pair" => (KeyOf(a) = KeyOf(b) <=> Equiv(a, b))
\* the normal form is a normal form
NFIdempotent == st = "pair" =>
  LET n == NF(b) IN NF(U(n.scheme, n.host, n.port, n.path, n.query, "", "")) = n
=============================================================================
