------------------------------ MODULE CcSyntax ------------------------------
(***************************************************************************)
(* Meaning-preserving rewrites of Cache-Control (C12; RFC 9111 5.2,        *)
(* RFC 9110 5.3 / 5.6).                                                    *)
(*                                                                         *)
(* A field value is modelled as TEXT: a sequence of field lines, each a    *)
(* sequence of one-character strings.  Render turns a directive list (the  *)
(* meaning) and a rewrite recipe into text: letter case of the names,      *)
(* token / quoted-string / quoted-pair arguments, optional whitespace      *)
(* around the list separators, empty list elements, the split into several *)
(* field lines, the order of the directives, and unknown extension         *)
(* directives (bare, with a token, with a quoted string that contains      *)
(* commas, directive names and escaped quotes).  CodeParse is a            *)
(* transcription of the parser of the implementation, character by         *)
(* character: internal/ccdirectives.go cacheControlValue (join the lines), *)
(* internal/helpers.go TrimmedCSVSeq (split at commas outside quoted       *)
(* strings, honouring quoted-pairs, trim), directivesSeq2 (cut at "=",     *)
(* lower-case the name, the first occurrence wins) and ParseQuotedString for   *)
(* the arguments.                                                          *)
(*                                                                         *)
(* TLC enumerates every (directive list, recipe) and checks that the       *)
(* parser recovers exactly the meaning (ParseExact) - and exports the text *)
(* of each, which the harness puts on the wire verbatim in a scenario      *)
(* whose outcome depends on that meaning; the observations must equal      *)
(* those of the canonical spelling (monitor M12).  The Defects switches    *)
(* are the parsers of the pinned tree and of seeded changes:               *)
(* case_sensitive, first_line_only, no_quoted_args, naive_split, last_wins.*)
(***************************************************************************)
EXTENDS Integers, Sequences, FiniteSets, TLC, Json

CONSTANTS Defects, Tier, Export

Thorough == Tier = "thorough"

(***************************************************************************)
(* characters                                                              *)
(***************************************************************************)
LowerCs == <<"a","b","c","d","e","f","g","h","i","j","k","l","m","n","o","p","q","r","s","t","u","v","w","x","y","z">>
UpperCs == <<"A","B","C","D","E","F","G","H","I","J","K","L","M","N","O","P","Q","R","S","T","U","V","W","X","Y","Z">>
IdxIn(s, c) == IF \E i \in 1..Len(s) : s[i] = c THEN CHOOSE i \in 1..Len(s) : s[i] = c ELSE 0
Up(c) == LET i == IdxIn(LowerCs, c) IN IF i > 0 THEN UpperCs[i] ELSE c
Low(c) == LET i == IdxIn(UpperCs, c) IN IF i > 0 THEN LowerCs[i] ELSE c
DQ == "\""
BS == "\\"
SP == " "
HT == "\t"
IsWs(c) == c \in {SP, HT}

RECURSIVE Flat(_)
Flat(ss) == IF ss = <<>> THEN <<>> ELSE Head(ss) \o Flat(Tail(ss))

\* names and arguments as character sequences
NameOf(n) ==
  CASE n = "max-age" -> <<"m","a","x","-","a","g","e">>
    [] n = "no-cache" -> <<"n","o","-","c","a","c","h","e">>
    [] n = "no-store" -> <<"n","o","-","s","t","o","r","e">>
    [] n = "must-revalidate" -> <<"m","u","s","t","-","r","e","v","a","l","i","d","a","t","e">>
    [] n = "only-if-cached" -> <<"o","n","l","y","-","i","f","-","c","a","c","h","e","d">>
    [] n = "max-stale" -> <<"m","a","x","-","s","t","a","l","e">>
    [] n = "min-fresh" -> <<"m","i","n","-","f","r","e","s","h">>
    [] n = "stale-while-revalidate" -> <<"s","t","a","l","e","-","w","h","i","l","e","-","r","e","v","a","l","i","d","a","t","e">>
    [] n = "stale-if-error" -> <<"s","t","a","l","e","-","i","f","-","e","r","r","o","r">>
    [] n = "public" -> <<"p","u","b","l","i","c">>
    [] n = "immutable" -> <<"i","m","m","u","t","a","b","l","e">>
    [] n = "private" -> <<"p","r","i","v","a","t","e">>
    [] n = "s-maxage" -> <<"s","-","m","a","x","a","g","e">>
    [] n = "proxy-revalidate" -> <<"p","r","o","x","y","-","r","e","v","a","l","i","d","a","t","e">>
    [] n = "no-transform" -> <<"n","o","-","t","r","a","n","s","f","o","r","m">>
ArgOf(a) ==
  CASE a = "" -> <<>>
    [] a = "0" -> <<"0">>
    [] a = "2" -> <<"2">>
    [] a = "4" -> <<"4">>
    [] a = "5" -> <<"5">>
    [] a = "30" -> <<"3","0">>
    [] a = "huge" -> <<"9","9","9","9","9","9","9","9","9","9","9","9","9","9","9","9","9","9","9","9">>
    [] a = "X-Secret" -> <<"X","-","S","e","c","r","e","t">>

(***************************************************************************)
(* the meanings: directive lists whose effect a scenario can observe.       *)
(* abs is the abstract message the harness understands.                    *)
(***************************************************************************)
D(n, a) == [n |-> n, a |-> a]
RespAbs(ma, swr, sie, fl, ncf) == [ma |-> ma, swr |-> swr, sie |-> sie, fl |-> fl, ncf |-> ncf, ms |-> -1, mf |-> -1]
ReqAbs(ma, ms, mf, sie, fl) == [ma |-> ma, swr |-> -1, sie |-> sie, fl |-> fl, ncf |-> 0, ms |-> ms, mf |-> mf]
CAP == 1000000000

DirLists ==
  << [kind |-> "resp", dirs |-> <<D("max-age", "5")>>, abs |-> RespAbs(5, -1, -1, <<>>, 0)],
     [kind |-> "resp", dirs |-> <<D("max-age", "0")>>, abs |-> RespAbs(0, -1, -1, <<>>, 0)],
     [kind |-> "resp", dirs |-> <<D("max-age", "huge")>>, abs |-> RespAbs(CAP, -1, -1, <<>>, 0)],
     [kind |-> "resp", dirs |-> <<D("must-revalidate", ""), D("max-age", "5")>>, abs |-> RespAbs(5, -1, -1, <<"must-revalidate">>, 0)],
     [kind |-> "resp", dirs |-> <<D("no-store", ""), D("max-age", "30")>>, abs |-> RespAbs(30, -1, -1, <<"no-store">>, 0)],
     [kind |-> "resp", dirs |-> <<D("no-cache", ""), D("max-age", "30")>>, abs |-> RespAbs(30, -1, -1, <<"no-cache">>, 0)],
     [kind |-> "resp", dirs |-> <<D("no-cache", "X-Secret"), D("max-age", "30")>>, abs |-> RespAbs(30, -1, -1, <<"no-cache">>, 1)],
     \* said twice, once with field names: the unqualified form covers the whole response
     [kind |-> "resp", dirs |-> <<D("no-cache", ""), D("no-cache", "X-Secret"), D("max-age", "30")>>, abs |-> RespAbs(30, -1, -1, <<"no-cache">>, 0)],
     \* a directive given twice with different values: the first occurrence is used (RFC 9111 4.2.1; the other reading,
     \* "considered stale", says the same after max-age=0); the order of such a list is part of its meaning
     [kind |-> "resp", dirs |-> <<D("max-age", "0"), D("max-age", "30")>>, abs |-> RespAbs(0, -1, -1, <<>>, 0)],
     [kind |-> "resp", dirs |-> <<D("max-age", "5"), D("stale-while-revalidate", "30")>>, abs |-> RespAbs(5, 30, -1, <<>>, 0)],
     [kind |-> "resp", dirs |-> <<D("max-age", "5"), D("stale-if-error", "30")>>, abs |-> RespAbs(5, -1, 30, <<>>, 0)],
     [kind |-> "resp", dirs |-> <<D("public", ""), D("max-age", "5"), D("must-revalidate", ""), D("stale-if-error", "30")>>,
      abs |-> RespAbs(5, -1, 30, <<"public", "must-revalidate">>, 0)],
     [kind |-> "resp", dirs |-> <<D("immutable", ""), D("max-age", "5")>>, abs |-> RespAbs(5, -1, -1, <<"immutable">>, 0)],
     \* directives that speak to shared caches or transforming intermediaries only (RFC 9111 5.2.2.6-8, 5.2.2.10):
     \* the abstract meaning - what a private cache has to act on - is that of the list without them
     [kind |-> "resp", dirs |-> <<D("max-age", "5"), D("s-maxage", "30")>>, abs |-> RespAbs(5, -1, -1, <<>>, 0)],
     [kind |-> "resp", dirs |-> <<D("s-maxage", "0"), D("max-age", "30")>>, abs |-> RespAbs(30, -1, -1, <<>>, 0)],
     [kind |-> "resp", dirs |-> <<D("private", ""), D("proxy-revalidate", ""), D("max-age", "5"), D("stale-if-error", "30")>>,
      abs |-> RespAbs(5, -1, 30, <<>>, 0)],
     [kind |-> "resp", dirs |-> <<D("no-transform", ""), D("s-maxage", "5"), D("max-age", "30"), D("private", "")>>, abs |-> RespAbs(30, -1, -1, <<>>, 0)],
     [kind |-> "req", dirs |-> <<D("no-transform", ""), D("max-stale", "5")>>, abs |-> ReqAbs(-1, 5, -1, -1, <<>>)],
     [kind |-> "req", dirs |-> <<D("no-cache", "")>>, abs |-> ReqAbs(-1, -1, -1, -1, <<"no-cache">>)],
     [kind |-> "req", dirs |-> <<D("no-store", "")>>, abs |-> ReqAbs(-1, -1, -1, -1, <<"no-store">>)],
     [kind |-> "req", dirs |-> <<D("only-if-cached", "")>>, abs |-> ReqAbs(-1, -1, -1, -1, <<"only-if-cached">>)],
     [kind |-> "req", dirs |-> <<D("max-age", "2")>>, abs |-> ReqAbs(2, -1, -1, -1, <<>>)],
     [kind |-> "req", dirs |-> <<D("max-age", "0")>>, abs |-> ReqAbs(0, -1, -1, -1, <<>>)],
     [kind |-> "req", dirs |-> <<D("max-stale", "")>>, abs |-> ReqAbs(-1, -3, -1, -1, <<>>)],
     [kind |-> "req", dirs |-> <<D("max-stale", "5")>>, abs |-> ReqAbs(-1, 5, -1, -1, <<>>)],
     [kind |-> "req", dirs |-> <<D("min-fresh", "4")>>, abs |-> ReqAbs(-1, -1, 4, -1, <<>>)],
     [kind |-> "req", dirs |-> <<D("stale-if-error", "30"), D("max-age", "2")>>, abs |-> ReqAbs(2, -1, -1, 30, <<>>)],
     [kind |-> "req", dirs |-> <<D("only-if-cached", ""), D("max-stale", "huge")>>, abs |-> ReqAbs(-1, CAP, -1, -1, <<"only-if-cached">>)] >>

(***************************************************************************)
(* recipes and rendering                                                   *)
(***************************************************************************)
\* cs: letter case of the names (0 lower, 1 UPPER, 2 Capitalised-Words, 3 aLtErNaTiNg), rotated by cstep per directive
\* q : arguments (0 token, 1 quoted-string, 2 quoted-string of quoted-pairs), rotated by qstep per directive
\* ows: whitespace around the separators   emp: empty list elements (0 none, 1 leading, 2 between, 3 everywhere)
\* split: 0 one field line, 1 one line per element, 2 two lines   ord: 0 as given, 1 reversed, 2 rotated
\* ext: unknown extension directives mixed in (0 none .. 4)   extpos: 0 first, 1 middle, 2 last
Canonical == [cs |-> 0, cstep |-> 0, q |-> 0, qstep |-> 0, ows |-> 1, emp |-> 0, split |-> 0, ord |-> 0, ext |-> 0, extpos |-> 0]

Cased(cs, name) ==
  [i \in 1..Len(name) |->
     CASE cs = 1 -> Up(name[i])
       [] cs = 2 -> IF i = 1 \/ name[i - 1] = "-" THEN Up(name[i]) ELSE name[i]
       [] cs = 3 -> IF i % 2 = 1 THEN Up(name[i]) ELSE name[i]
       [] OTHER -> name[i]]
Quoted(q, arg) ==
  CASE q = 1 -> <<DQ>> \o arg \o <<DQ>>
    [] q = 2 -> <<DQ>> \o Flat([i \in 1..Len(arg) |-> <<BS, arg[i]>>]) \o <<DQ>>
    [] OTHER -> arg
\* a field-name list (no-cache="X-Secret") is a quoted-string in every spelling
Element(d, cs, q) ==
  Cased(cs, NameOf(d.n)) \o
  (IF d.a = "" THEN <<>> ELSE <<"=">> \o Quoted(IF d.a = "X-Secret" /\ q = 0 THEN 1 ELSE q, ArgOf(d.a)))

ExtElems(ext) ==
  CASE ext = 1 -> << <<"f","o","o","=","b","a","r">> >>
    [] ext = 2 -> << <<"x","-","e","x","t","=",DQ,"a",","," ","m","a","x","-","a","g","e","=","1",","," ","n","o","-","s","t","o","r","e",DQ>> >>
    [] ext = 3 -> << <<"x","-","q","=",DQ,"a",BS,DQ,","," ","n","o","-","s","t","o","r","e",","," ","m","a","x","-","a","g","e","=","0",","," ",BS,DQ,"b",DQ>> >>
    [] ext = 4 -> << <<"c","o","m","m","u","n","i","t","y">>, <<"N","O","-","T","R","A","N","S","F","O","R","M">> >>
    [] OTHER -> <<>>

Ows1(o) == CASE o = 1 -> <<>> [] o = 2 -> <<HT>> [] o = 3 -> <<SP, SP, HT>> [] OTHER -> <<>>
Ows2(o) == CASE o = 1 -> <<SP>> [] o = 2 -> <<SP>> [] o = 3 -> <<HT, SP>> [] OTHER -> <<>>

Reorder(s, ord) ==
  CASE ord = 1 -> [i \in 1..Len(s) |-> s[Len(s) + 1 - i]]
    [] ord = 2 -> IF Len(s) > 1 THEN Tail(s) \o <<Head(s)>> ELSE s
    [] OTHER -> s
InsertAt(s, xs, pos) ==
  LET k == CASE pos = 0 -> 0 [] pos = 1 -> Len(s) \div 2 [] OTHER -> Len(s) IN
  SubSeq(s, 1, k) \o xs \o SubSeq(s, k + 1, Len(s))

\* one field line from elements
RECURSIVE JoinEls(_, _, _)
JoinEls(els, o, emp) ==
  IF els = <<>> THEN <<>>
  ELSE IF Len(els) = 1 THEN Head(els)
  ELSE Head(els) \o Ows1(o) \o <<",">> \o (IF emp \in {2, 3} THEN Ows2(o) \o <<",">> ELSE <<>>) \o Ows2(o) \o JoinEls(Tail(els), o, emp)
Line(els, o, emp) ==
  (IF emp \in {1, 3} THEN <<",">> \o Ows2(o) ELSE <<>>) \o JoinEls(els, o, emp) \o (IF emp = 3 THEN Ows1(o) \o <<",">> \o Ows1(o) ELSE <<>>)

Render(dirs, rc) ==
  LET ds  == Reorder(dirs, rc.ord)
      els == [i \in 1..Len(ds) |-> Element(ds[i], (rc.cs + rc.cstep * (i - 1)) % 4, (rc.q + rc.qstep * (i - 1)) % 3)]
      all == InsertAt(els, ExtElems(rc.ext), rc.extpos)
  IN CASE rc.split = 1 -> [i \in 1..Len(all) |-> Line(<<all[i]>>, rc.ows, IF rc.emp = 2 THEN 0 ELSE rc.emp)]
       [] rc.split = 2 /\ Len(all) > 1 ->
            LET k == (Len(all) + 1) \div 2 IN << Line(SubSeq(all, 1, k), rc.ows, rc.emp), Line(SubSeq(all, k + 1, Len(all)), rc.ows, rc.emp) >>
       [] OTHER -> << Line(all, rc.ows, rc.emp) >>

(***************************************************************************)
(* the parser of the implementation, transcribed                           *)
(***************************************************************************)
\* cacheControlValue: strings.Join(header.Values("Cache-Control"), ",")
RECURSIVE JoinLines(_)
JoinLines(ls) == IF ls = <<>> THEN <<>> ELSE IF Len(ls) = 1 THEN Head(ls) ELSE Head(ls) \o <<",">> \o JoinLines(Tail(ls))
Value(lines) == IF "first_line_only" \in Defects THEN (IF lines = <<>> THEN <<>> ELSE Head(lines)) ELSE JoinLines(lines)

\* textproto.TrimString
RECURSIVE TrimL(_)
TrimL(s) == IF s # <<>> /\ IsWs(Head(s)) THEN TrimL(Tail(s)) ELSE s
RECURSIVE TrimR(_)
TrimR(s) == IF s # <<>> /\ IsWs(s[Len(s)]) THEN TrimR(SubSeq(s, 1, Len(s) - 1)) ELSE s
Trim(s) == TrimR(TrimL(s))

\* helpers.go TrimmedCSVSeq: state (part, inQuotes, escape); yields the non-empty trimmed parts
RECURSIVE Csv(_, _, _, _, _)
Csv(s, part, inq, esc, out) ==
  IF s = <<>> THEN (IF Trim(part) # <<>> THEN Append(out, Trim(part)) ELSE out)
  ELSE LET c == Head(s)  r == Tail(s) IN
       IF esc THEN Csv(r, Append(part, c), inq, FALSE, out)
       ELSE IF c = BS THEN Csv(r, Append(part, c), inq, TRUE, out)
       ELSE IF c = DQ THEN Csv(r, Append(part, c), ~inq, FALSE, out)
       ELSE IF c = "," /\ (~inq \/ "naive_split" \in Defects)
              THEN Csv(r, <<>>, inq, FALSE, IF Trim(part) # <<>> THEN Append(out, Trim(part)) ELSE out)
       ELSE Csv(r, Append(part, c), inq, FALSE, out)

\* strings.Cut(part, "=")
CutAt(s) == IF \E i \in 1..Len(s) : s[i] = "=" THEN CHOOSE i \in 1..Len(s) : s[i] = "=" /\ \A j \in 1..(i - 1) : s[j] # "=" ELSE 0

\* quotedstring.go ParseQuotedString: the unescaped content, or the input itself when it is not a quoted-string
RECURSIVE Unq(_, _)
Unq(in, out) ==
  IF in = <<>> THEN out
  ELSE IF Head(in) = BS THEN (IF Len(in) < 2 THEN <<"!">> ELSE Unq(Tail(Tail(in)), Append(out, in[2])))
  ELSE Unq(Tail(in), Append(out, Head(in)))
Unquote(s) ==
  IF "no_quoted_args" \in Defects THEN s
  ELSE IF Len(s) >= 2 /\ s[1] = DQ /\ s[Len(s)] = DQ THEN Unq(SubSeq(s, 2, Len(s) - 1), <<>>) ELSE s

\* directivesSeq2 + maps.Collect: name -> raw argument; the first occurrence wins (the pinned tree: the last, Defects "last_wins")
KeyOf(part) == LET i == CutAt(part)  k == IF i = 0 THEN Trim(part) ELSE SubSeq(part, 1, i - 1) IN
               IF "case_sensitive" \in Defects THEN k ELSE [j \in 1..Len(k) |-> Low(k[j])]
ValOf(part) == LET i == CutAt(part) IN IF i = 0 THEN <<>> ELSE Trim(SubSeq(part, i + 1, Len(part)))
\* parseDirectives: the first occurrence wins - except that a no-cache without argument is not narrowed by another
\* occurrence that names fields (the pinned tree let the last one win there too)
CodeParse(lines) ==
  LET parts == Csv(Value(lines), <<>>, FALSE, FALSE, <<>>)
      keys  == {KeyOf(parts[i]) : i \in 1..Len(parts)} \ {<<>>}
  IN [k \in keys |-> LET last  == CHOOSE i \in 1..Len(parts) : KeyOf(parts[i]) = k /\ \A j \in (i + 1)..Len(parts) : KeyOf(parts[j]) # k
                         first == CHOOSE i \in 1..Len(parts) : KeyOf(parts[i]) = k /\ \A j \in 1..(i - 1) : KeyOf(parts[j]) # k
                     IN IF k = NameOf("no-cache") /\ "last_wins" \notin Defects
                           /\ \E i \in 1..Len(parts) : KeyOf(parts[i]) = k /\ ValOf(parts[i]) = <<>>
                          THEN <<>>
                        ELSE Unquote(ValOf(parts[IF "last_wins" \in Defects THEN last ELSE first]))]

(***************************************************************************)
(* what the text has to mean                                               *)
(***************************************************************************)
Known == {NameOf(n) : n \in {"max-age", "no-cache", "no-store", "must-revalidate", "only-if-cached", "max-stale", "min-fresh",
                             "stale-while-revalidate", "stale-if-error", "public", "immutable", "private",
                             "s-maxage", "proxy-revalidate"}}
\* a directive given twice: the occurrence without argument decides (that only arises for no-cache here)
MeaningOf(dirs) == [k \in {NameOf(dirs[i].n) : i \in 1..Len(dirs)} |->
                      IF \E i \in 1..Len(dirs) : NameOf(dirs[i].n) = k /\ dirs[i].a = "" THEN <<>>
                      ELSE LET i == CHOOSE i \in 1..Len(dirs) : NameOf(dirs[i].n) = k /\ \A j \in 1..(i - 1) : NameOf(dirs[j].n) # k
                           IN ArgOf(dirs[i].a)]
HasDup(dirs) == \E i, j \in 1..Len(dirs) : i # j /\ dirs[i].n = dirs[j].n /\ dirs[i].a # "" /\ dirs[j].a # ""
Restrict(f, S) == [k \in DOMAIN f \cap S |-> f[k]]

VARIABLES dl, rc, st
vars == <<dl, rc, st>>

Init == dl = 0 /\ rc = Canonical /\ st = "start"
\* two steps, so that the work spreads over TLC's workers: first the meaning and part of the recipe, then the rest
\* the quick tier enumerates a sub-lattice of the recipes, the thorough tier all of them
Steps01 == {1}
QSteps  == IF Thorough THEN {0, 1} ELSE {1}
ExtPos  == IF Thorough THEN 0..2 ELSE {1}
CsSet   == IF Thorough THEN 0..3 ELSE {0, 1, 3}
OwsSet  == IF Thorough THEN 0..3 ELSE {1, 3}
EmpSet  == IF Thorough THEN 0..3 ELSE {0, 3}
OrdSet  == IF Thorough THEN 0..2 ELSE {0, 1}
ExtSet  == IF Thorough THEN 0..4 ELSE {0, 2, 3, 4}
Pick1 ==
  /\ st = "start"
  /\ \E i \in 1..Len(DirLists), c \in CsSet, cstep \in Steps01, q \in 0..2, qstep \in QSteps, o \in OwsSet, xp \in ExtPos :
       /\ dl' = i /\ st' = "half"
       /\ rc' = [Canonical EXCEPT !.cs = c, !.cstep = cstep, !.q = q, !.qstep = qstep, !.ows = o, !.extpos = xp]
Pick2 ==
  /\ st = "half"
  /\ \E e \in EmpSet, sp \in 0..2, od \in (IF HasDup(DirLists[dl].dirs) THEN {0} ELSE OrdSet), x \in ExtSet :
       LET r == [rc EXCEPT !.emp = e, !.split = sp, !.ord = od, !.ext = x] IN
       /\ rc' = r /\ st' = "text" /\ UNCHANGED dl
       /\ (Export => PrintT(ToJson([dl |-> dl, kind |-> DirLists[dl].kind, abs |-> DirLists[dl].abs, rc |-> r,
                                    lines |-> Render(DirLists[dl].dirs, r), canon |-> Render(DirLists[dl].dirs, Canonical)])))
Next == Pick1 \/ Pick2
Spec == Init /\ [][Next]_vars

\* the parser recovers exactly the meaning from every rewrite: the known directives with their arguments, nothing else known
ParseExact == st = "text" =>
  Restrict(CodeParse(Render(DirLists[dl].dirs, rc)), Known) = Restrict(MeaningOf(DirLists[dl].dirs), Known)
\* the canonical text parses to the meaning too (sanity of Render / MeaningOf)
CanonicalOK == \A i \in 1..Len(DirLists) : Restrict(CodeParse(Render(DirLists[i].dirs, Canonical)), Known) = Restrict(MeaningOf(DirLists[i].dirs), Known)
=============================================================================
