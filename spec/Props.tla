------------------------------- MODULE Props -------------------------------
(***************************************************************************)
(* Ghost ledger and property monitors C01..C13, C16, C18..C20 over the     *)
(* event stream of the harness (DESIGN.md 3.3, 7).  Everything here is a   *)
(* pure operator; Trace.tla threads the ledger through the recorded events *)
(* and evaluates Violated / NonTrivial in every state.                     *)
(*                                                                         *)
(* No monitor looks at store keys or value formats: representations are    *)
(* identified by the body token and tag the scripted origin put into them. *)
(***************************************************************************)
EXTENDS Rfc9111, TLC

PropIds == {"C01","C02","C03","C04","C05","C06","C07","C08","C09","C10",
            "C11","C12","C13","C16","C18","C19","C20"}

NoObs == [kind |-> "none", line |-> 0]

EmptyLedger(scn) ==
  [ scn |-> scn, grp |-> "", spv |-> 0, gk |-> "", swr |-> 5000, t |-> 0,
    open |-> <<>>, calls |-> <<>>, sent |-> <<>>, tk |-> <<>>, eff |-> <<>>,
    kv |-> <<>>, ever |-> {}, inval |-> {}, namedxo |-> {}, replacedFor |-> {}, replacedSure |-> {},
    faulted |-> FALSE, hardfault |-> {}, pairs |-> {}, varies |-> {}, nreq |-> 0,
    obsq |-> <<>>, canon |-> <<>>, canongrp |-> "", swrx |-> {}, served |-> <<>>, fuzzy |-> {}, vu |-> {}, conc |-> FALSE, hadconc |-> FALSE, gseq |-> <<>>,
    last |-> NoObs ]

(***************************************************************************)
(* helpers                                                                 *)
(***************************************************************************)
Dom(f) == DOMAIN f
StoredToks(L) == UNION {L.kv[k].toks : k \in DOMAIN L.kv}

VariantMatch(rep, rq0, rq) ==
  /\ rep.vs = 0
  /\ \A i \in 1..Len(rep.vary) : rq0.sel[rep.vary[i] + 1] = rq.sel[rep.vary[i] + 1]

FgCalls(L, x) == SelectSeq(L.calls, LAMBDA c : c.x = x /\ c.bg = 0)
BgCalls(L, x) == SelectSeq(L.calls, LAMBDA c : c.x = x /\ c.bg = 1)

Failed(c)   == c.kind \in {"err", "cancelled", "released"}
SieFail(c)  == Failed(c) \/ (c.kind = "full" /\ c.st \in SieStatuses)

\* representation as the reply carries it: header meaning from the reply,
\* age base (upstream Age, request / response time) from the ledger
\* (the Date is the origin's, as the ledger knows it, whatever the reply says: a cache that rewrites it changes the age)
HRep(h, st, b) ==
  [ st |-> st, ccp |-> h.ccp, ma |-> h.ma, fl |-> h.fl, swr |-> h.swr, sie |-> h.sie,
    ncf |-> h.ncf, date |-> IF "date" \in DOMAIN b /\ b.date >= 0 THEN b.date ELSE IF h.date >= 0 THEN h.date ELSE b.respT, exp |-> h.exp,
    lm |-> h.lm, etag |-> h.etag, vary |-> h.vary, vs |-> h.vs,
    age |-> b.age, reqT |-> b.reqT, respT |-> b.respT ]

Merge(old, n) ==
  [ st |-> old.st,
    ccp |-> IF n.ccp = 1 THEN 1 ELSE old.ccp,
    ma  |-> IF n.ccp = 1 THEN n.ma ELSE old.ma,
    fl  |-> IF n.ccp = 1 THEN n.fl ELSE old.fl,
    swr |-> IF n.ccp = 1 THEN n.swr ELSE old.swr,
    sie |-> IF n.ccp = 1 THEN n.sie ELSE old.sie,
    ncf |-> IF n.ccp = 1 THEN n.ncf ELSE old.ncf,
    date |-> n.date,
    exp |-> IF n.exp # None THEN n.exp ELSE old.exp,
    lm  |-> IF n.lm # None THEN n.lm ELSE old.lm,
    etag |-> IF n.etag # 0 THEN n.etag ELSE old.etag,
    vary |-> IF n.vs = 1 \/ Len(n.vary) > 0 THEN n.vary ELSE old.vary,
    vs  |-> IF n.vs = 1 \/ Len(n.vary) > 0 THEN n.vs ELSE old.vs,
    age |-> n.age, reqT |-> n.reqT, respT |-> n.respT ]

SameHeaders(a, b) ==
  /\ a.ccp = b.ccp /\ a.ma = b.ma /\ SeqSet(a.fl) = SeqSet(b.fl) /\ a.swr = b.swr /\ a.sie = b.sie
  /\ a.exp = b.exp /\ a.lm = b.lm /\ a.etag = b.etag /\ a.vary = b.vary /\ a.vs = b.vs

\* expectation of what is stored for token T after a 304 with tag g freshened it
Freshen(L, eff, T, g) ==
  [ U \in DOMAIN eff |->
      IF U = T
        THEN [ rep |-> Merge(eff[U].rep, L.sent[g].rep),
               ages |-> IF L.sent[g].rep.age # None THEN {L.sent[g].rep.age} ELSE {None} \cup eff[U].ages,
               lasttag |-> g, n304 |-> eff[U].n304 + 1 ]
      ELSE eff[U] ]

\* a 304 that may be written to the store: neither the request nor the 304 says no-store
Storable304(L, rq, g) == ~Has(rq, "no-store") /\ ~(L.sent[g].rep.ccp = 1 /\ Has(L.sent[g].rep, "no-store"))

\* a background call whose outcome the cache may or may not have seen
BgLate(L, c, rq) == c.ctxdone = 1 \/ (c.t1 - c.t0) * 1000 >= L.swr \/ rq.cancel \in {1, 2} \/ c.kind \in {"cancelled", "released"}

(***************************************************************************)
(* ledger updates                                                          *)
(***************************************************************************)
OnReset(L, e, line) ==
  [ EmptyLedger(e.scn) EXCEPT
      !.grp = e.grp, !.spv = e.spv, !.gk = e.gk, !.swr = e.swr, !.t = e.t,
      !.canon = IF e.grp # "" /\ e.grp = L.grp /\ L.spv = 0 THEN L.obsq
                ELSE IF e.grp # "" /\ e.grp = L.canongrp THEN L.canon ELSE <<>>,
      !.canongrp = IF e.grp # "" /\ e.grp = L.grp /\ L.spv = 0 THEN e.grp
                   ELSE IF e.grp # "" /\ e.grp = L.canongrp THEN L.canongrp ELSE "",
      !.last = [kind |-> "reset", line |-> line] ]

OnQuiet(L, e, line) == [L EXCEPT !.t = e.t, !.last = [kind |-> "quiet", line |-> line]]

\* stored responses the request could be answered with, judged when the exchange begins
\* When the origin has used different Vary sets for one URI, which of several matching stored responses a cache
\* selects (and therefore validates) is its own choice (RFC 9111 4.1): nothing is owed then.
VaryConsistent(L, u) ==
  Cardinality({ <<L.eff[T].rep.vary, L.eff[T].rep.vs>> : T \in {S \in StoredToks(L) \cap DOMAIN L.tk : L.tk[S].rq.u = u} }) <= 1

Candidates(L, rq, x) ==
  IF ~VaryConsistent(L, rq.u) THEN {} ELSE
  { T \in StoredToks(L) \cap DOMAIN L.tk :
      /\ L.tk[T].rq.u = rq.u /\ L.tk[T].x # x
      /\ T \notin L.inval /\ T \notin L.fuzzy
      \* a response that a newer stored one has superseded for some request is no longer
      \* owed to anybody (whether it may still be served to other requests is left open)
      /\ ~(\E p \in L.replacedFor : p[1] = T)
      /\ VariantMatch(L.eff[T].rep, L.tk[T].rq, rq) }

OnBegin(L, e, line) ==
  [ L EXCEPT !.t = e.t,
      !.open = L.open @@ (e.x :> [rq |-> e.rq, t0 |-> e.t, nfault |-> e.nfault, hard |-> e.hard, line |-> line, seq |-> L.nreq + 1,
                                  cands |-> IF L.faulted \/ e.nfault > 0 \/ L.hadconc THEN {} ELSE Candidates(L, e.rq, e.x)]),
      !.pairs = L.pairs \cup {<<e.rq.u, e.rq.sel>>},
      !.nreq = L.nreq + 1,
      !.faulted = L.faulted \/ e.nfault > 0,
      !.last = [kind |-> "quiet", line |-> line] ]

OnOp(L, e, line) ==
  LET toks == SeqSet(e.toks)
      tags == SeqSet(e.tags)
      ok   == e.ok = 1
      kv2  == IF e.kind = "set" /\ ok
                THEN [k \in DOMAIN L.kv \cup {e.k} |->
                        IF k = e.k THEN [toks |-> toks, tags |-> tags, role |-> e.role, n |-> e.n] ELSE L.kv[k]]
              ELSE IF e.kind = "del" /\ ok
                THEN [k \in DOMAIN L.kv \ {e.k} |-> L.kv[k]]
              ELSE L.kv
      new  == IF e.kind = "set" /\ ok THEN toks \ L.ever ELSE {}
      \* <<replaced token, selecting values, number of requests begun so far>>: only an
      \* exchange that begins later must not be answered with the replaced response
      repl == { <<T, L.tk[N].rq.sel, L.nreq>> : T \in L.ever \cap DOMAIN L.tk, N \in new \cap DOMAIN L.tk }
      repl2 == { p \in repl : \E N \in new \cap DOMAIN L.tk :
                   /\ p[2] = L.tk[N].rq.sel
                   /\ L.tk[p[1]].rq.u = L.tk[N].rq.u
                   /\ L.tk[p[1]].x < L.tk[N].x
                   /\ VariantMatch(L.eff[p[1]].rep, L.tk[p[1]].rq, L.tk[N].rq) }
  IN [ L EXCEPT !.t = e.t, !.kv = kv2, !.ever = L.ever \cup new, !.gseq = Append(L.gseq, e.x),
         !.replacedFor = L.replacedFor \cup repl2,
         \* which stored response a new one replaces is only certain when a single older one matched the request
         !.replacedSure = IF Cardinality({p[1] : p \in repl2} \cap StoredToks(L)) = 1 /\ Cardinality({p[1] : p \in repl2}) = 1
                            THEN L.replacedSure \cup repl2 ELSE L.replacedSure,
         !.vu = L.vu \cup { L.tk[p[1]].rq.u : p \in repl2 },
         \* gone: the tokens a successful delete removed from the store; ou: the resource the deleting exchange is about
         !.last = [kind |-> "op", line |-> line, e |-> e, toks |-> toks, tags |-> tags,
                   gone |-> IF e.kind = "del" /\ ok /\ e.k \in DOMAIN L.kv THEN L.kv[e.k].toks ELSE {},
                   ou |-> IF e.x \in DOMAIN L.open THEN L.open[e.x].rq.u ELSE -1] ]

OnCall(L, e, line) ==
  LET rq == L.open[e.x].rq
      c  == [ x |-> e.x, c |-> e.c, bg |-> e.bg, kind |-> e.kind, tag |-> e.tag, tok |-> e.tok,
              t0 |-> e.t0, t1 |-> e.t1, inm |-> e.inm, ims |-> e.ims, m |-> e.m, rng |-> e.rng,
              oic |-> e.oic, st |-> e.rep.st, ctxdone |-> e.ctxdone, hsame |-> e.hsame, usame |-> e.usame, url |-> e.url ]
      isResp == e.kind \in {"full", "304", "bodyerr"}
  IN [ L EXCEPT !.t = e.t1, !.gseq = Append(L.gseq, e.x),
         !.calls = Append(L.calls, c),
         !.sent = IF isResp THEN L.sent @@ (e.tag :> [kind |-> e.kind, tok |-> e.tok, x |-> e.x, rep |-> e.rep]) ELSE L.sent,
         !.tk = IF isResp /\ e.tok # ""
                  THEN L.tk @@ (e.tok :> [x |-> e.x, tag |-> e.tag, rq |-> rq, rep |-> e.rep, incomplete |-> (e.kind = "bodyerr")])
                ELSE L.tk,
         !.eff = IF isResp /\ e.tok # ""
                  THEN L.eff @@ (e.tok :> [rep |-> e.rep, ages |-> {e.rep.age}, lasttag |-> e.tag, n304 |-> 0])
                 ELSE IF e.bg = 1 /\ e.kind = "304" /\ e.x \in DOMAIN L.served /\ ~BgLate(L, c, rq)
                         /\ ~Has(rq, "no-store") /\ ~(e.rep.ccp = 1 /\ Has(e.rep, "no-store"))
                  THEN Freshen([L EXCEPT !.sent = L.sent @@ (e.tag :> [kind |-> e.kind, tok |-> e.tok, x |-> e.x, rep |-> e.rep])],
                               L.eff, L.served[e.x], e.tag)
                 ELSE L.eff,
         !.fuzzy = IF e.bg = 1 /\ e.x \in DOMAIN L.served /\ BgLate(L, c, rq) THEN L.fuzzy \cup {L.served[e.x]} ELSE L.fuzzy,
         !.vu = IF e.kind = "304" THEN L.vu \cup {rq.u} ELSE L.vu,
         !.varies = IF isResp THEN L.varies \cup {<<e.rep.vary, e.rep.vs>>} ELSE L.varies,
         !.last = [kind |-> "call", line |-> line, e |-> e, rq |-> rq, c |-> c] ]

\* the observation of one completed exchange
OnRet(L, e, line) ==
  LET o    == L.open[e.x]
      rq   == o.rq
      fg   == FgCalls(L, e.x)
      resp == e.err = 0 /\ e.panic = 0 /\ e.neither = 0
      fromStore == resp /\ e.tok # "" /\ e.tok \in DOMAIN L.tk /\ L.tk[e.tok].x # e.x
      ownTok    == resp /\ e.tok # "" /\ e.tok \in DOMAIN L.tk /\ L.tk[e.tok].x = e.x
      ownTag    == resp /\ e.tag # "" /\ \E i \in 1..Len(fg) : fg[i].tag = e.tag
      contacted == Len(fg) > 0
      val304    == \E i \in 1..Len(fg) : fg[i].kind = "304"
      tagKnown  == e.tag # "" /\ e.tag \in DOMAIN L.sent
      base == IF tagKnown THEN L.sent[e.tag].rep
              ELSE IF fromStore THEN L.tk[e.tok].rep ELSE [age |-> None, reqT |-> e.t0, respT |-> e.t]
      st0  == IF fromStore THEN L.tk[e.tok].rep.st ELSE e.st
      rep  == HRep(e.h, st0, base)
      agec == IF tagKnown /\ L.sent[e.tag].kind = "304" /\ base.age = None /\ fromStore
                THEN {None} \cup L.eff[e.tok].ages ELSE {base.age}
      ages == {CurrentAgeA(rep, a, e.t) : a \in agec}
      \* candidates for the must-reuse obligation (as of the beginning of the exchange)
      cands == o.cands
      unsafeOK == rq.m \notin SafeMethods /\ resp /\ e.st >= 200 /\ e.st < 400 /\ ownTag
      orep == IF ownTag THEN L.sent[e.tag].rep ELSE [locu |-> -1, locso |-> 0, clocu |-> -1, clocso |-> 0]
      hit(u) == { T \in DOMAIN L.tk : L.tk[T].rq.u = u /\ L.tk[T].x < e.x }
      inval2 == IF unsafeOK
                  THEN L.inval \cup hit(rq.u)
                       \cup (IF orep.locu >= 0 /\ orep.locso = 1 THEN hit(orep.locu) ELSE {})
                       \cup (IF orep.clocu >= 0 /\ orep.clocso = 1 THEN hit(orep.clocu) ELSE {})
                ELSE L.inval
      xo2 == IF unsafeOK
               THEN L.namedxo \cup (IF orep.locu >= 0 /\ orep.locso = 0 THEN hit(orep.locu) ELSE {})
                              \cup (IF orep.clocu >= 0 /\ orep.clocso = 0 THEN hit(orep.clocu) ELSE {})
             ELSE L.namedxo
      \* 304 freshening: the ledger's expectation of what is stored now
      n304 == IF val304 THEN (CHOOSE i \in 1..Len(fg) : fg[i].kind = "304") ELSE 0
      bgs  == BgCalls(L, e.x)
      bgOK == { i \in 1..Len(bgs) : bgs[i].kind = "304" /\ ~BgLate(L, bgs[i], rq) /\ Storable304(L, rq, bgs[i].tag) }
      eff1 == IF fromStore /\ val304 /\ Storable304(L, rq, fg[n304].tag) THEN Freshen(L, L.eff, e.tok, fg[n304].tag) ELSE L.eff
      eff2 == IF fromStore /\ bgOK # {} THEN Freshen(L, eff1, e.tok, bgs[CHOOSE i \in bgOK : TRUE].tag) ELSE eff1
      fuzzy2 == IF fromStore /\ (\E i \in 1..Len(bgs) : BgLate(L, bgs[i], rq)) THEN L.fuzzy \cup {e.tok} ELSE L.fuzzy
      swrServed == fromStore /\ ~contacted /\ e.label = "STALE"
      obs == [ label |-> e.label, st |-> e.st, tok |-> e.tok, tag |-> e.tag, err |-> e.err,
               ncalls |-> Len(fg), fs |-> fromStore ]
  IN [ L EXCEPT !.t = e.t, !.inval = inval2, !.namedxo = xo2, !.eff = eff2,
         !.obsq = Append(L.obsq, obs),
         \* the validators are those of the STORED response (the reply may lack fields named by a qualified no-cache)
         !.swrx = IF swrServed THEN L.swrx \cup {[x |-> e.x, tok |-> e.tok, etag |-> L.eff[e.tok].rep.etag, lm |-> L.eff[e.tok].rep.lm]} ELSE L.swrx,
         !.served = IF fromStore THEN L.served @@ (e.x :> e.tok) ELSE L.served,
         !.fuzzy = fuzzy2,
         \* what the origin's responses (with the 304s that were stored since) say about this representation,
         \* whatever the reply's own header says
         !.last = [ kind |-> "ret", line |-> line, e |-> e, rq |-> rq, o |-> o, fg |-> fg, resp |-> resp,
                    erep |-> IF fromStore /\ e.tok \in DOMAIN eff1 /\ e.tok \notin fuzzy2 /\ ~L.faulted /\ ~L.hadconc
                               THEN eff1[e.tok].rep ELSE rep,
                    fromStore |-> fromStore, ownTok |-> ownTok, ownTag |-> ownTag, contacted |-> contacted,
                    val304 |-> val304, rep |-> rep, ages |-> ages, cands |-> cands, unsafeOK |-> unsafeOK,
                    effBefore |-> L.eff, invalBefore |-> L.inval, newInval |-> inval2 \ L.inval ] ]

\* requests issued concurrently: obligations that depend on the order of store operations are off
OnConc(L, e, line) == [L EXCEPT !.t = e.t, !.conc = (e.ev = "conc"), !.hadconc = TRUE, !.last = [kind |-> "quiet", line |-> line]]
OnRace(L, e, line) == [L EXCEPT !.last = [kind |-> "race", line |-> line, e |-> e]]
OnMut(L, e, line) == [L EXCEPT !.t = e.t, !.last = [kind |-> "mut", line |-> line, e |-> e]]
OnEnd(L, e, line) == [L EXCEPT !.t = e.t, !.last = [kind |-> "end", line |-> line, e |-> e]]
OnCrash(L, e, line) == [L EXCEPT !.last = [kind |-> "crash", line |-> line, e |-> e]]

(***************************************************************************)
(* monitors; each is TRUE when the property holds in the observed state    *)
(***************************************************************************)
IsRet(L)  == L.last.kind = "ret"
IsOp(L)   == L.last.kind = "op"
IsCall(L) == L.last.kind = "call"
IsEnd(L)  == L.last.kind = "end"
\* the end of a non-canonical member of a scenario group whose canonical run was recorded
AGrp(L) == IsEnd(L) /\ L.spv > 0 /\ L.grp # "" /\ L.canongrp = L.grp

\* --- C01 ---------------------------------------------------------------
A01(L) == IsRet(L) /\ L.last.fromStore /\ ~L.last.contacted
M01(L) == A01(L) => \E a \in L.last.ages : StalenessAllowed(L.last.rep, a, L.last.rq)

\* --- C02 ---------------------------------------------------------------
A02(L) == IsRet(L) /\ L.last.fromStore /\ ~L.last.val304
ValidatorsOK(L) ==
  LET R == L.last
      old == R.effBefore[R.e.tok].rep
      i == CHOOSE i \in 1..Len(R.fg) : R.fg[i].kind = "304"
      c == R.fg[i]
  IN /\ (old.etag > 0 => c.inm = old.etag)
     /\ (old.lm >= 0 => c.ims = old.lm)
     /\ (old.etag > 0 \/ old.lm >= 0)
M02(L) ==
  /\ A02(L) =>
       LET R == L.last IN
       /\ ~UnqualifiedNoCache(R.rep)
       /\ ~UnqualifiedNoCache(R.erep)
       /\ ~Has(R.rq, "no-cache")
       /\ \E a \in R.ages : ~MustRevalidateApplies(R.rep, a)
       /\ \E a \in R.ages : ~MustRevalidateApplies([R.rep EXCEPT !.ccp = R.erep.ccp, !.fl = R.erep.fl], a)
       /\ (~R.contacted => \E a \in R.ages : ~RequestMaxAgeExceeded(R.rep, a, R.rq))
       /\ (R.rep.ccp = 1 /\ Has(R.rep, "no-cache") /\ R.rep.ncf >= 1 => R.e.h.secret = 0)
  /\ (IsRet(L) => L.last.e.requnch = 1)
  /\ (IsRet(L) /\ L.last.fromStore /\ L.last.val304 /\ ~L.hadconc => ValidatorsOK(L))
  /\ (IsCall(L) =>
        LET c == L.last.c  rq == L.last.rq IN
        /\ c.m = rq.m /\ c.rng = rq.range /\ c.hsame = 1 /\ c.usame = 1
        /\ (rq.inm # 0 => c.inm # 0) /\ (rq.ims # 0 => c.ims # 0))
  /\ (L.last.kind = "mut" => L.last.e.req = 0)

\* --- C03 ---------------------------------------------------------------
A03(L) == IsRet(L) /\ L.last.fromStore /\ L.last.rq.ugap = 0 /\ L.tk[L.last.e.tok].rq.ugap = 0
M03(L) ==
  /\ (A03(L) =>
        LET R == L.last  src == L.tk[R.e.tok].rq IN
        /\ src.u = R.rq.u
        /\ src.m = "GET" /\ src.range = 0
        /\ R.rq.m = "GET" /\ R.rq.range = 0)
  \* what is stored for a URI was fetched for that URI: the origin is asked for the URL the caller passed
  /\ (IsCall(L) => L.last.c.usame = 1)

\* --- C04 ---------------------------------------------------------------
A04(L) == IsRet(L) /\ L.last.fromStore /\ ~L.last.val304 /\ L.last.e.h.unk = 0
\* (also by the Vary the origin last sent for this representation, should the reply carry another one)
M04(L) == A04(L) =>
  LET R == L.last IN
  /\ VariantMatch(R.rep, L.tk[R.e.tok].rq, R.rq)
  /\ VariantMatch([R.rep EXCEPT !.vary = R.erep.vary, !.vs = R.erep.vs], L.tk[R.e.tok].rq, R.rq)

\* --- C05 ---------------------------------------------------------------
A05(L) == IsRet(L) /\ (L.last.fromStore \/ L.last.ownTok)
M05(L) ==
  /\ A05(L) =>
       LET R == L.last IN
       /\ (L.tk[R.e.tok].incomplete \/ (R.e.bodyok = 1 /\ R.e.bodyerr = 0))
       \* a body the origin could not deliver completely ends in a read error for the client, never in a clean end of stream
       /\ (L.tk[R.e.tok].incomplete /\ R.ownTok => R.e.bodyerr = 1 \/ R.e.bodyok = 1)
       /\ R.e.hopin = 0
       /\ (R.fromStore => R.e.e2eok = 1 /\ R.e.stsame = 1 /\ R.e.h.unk = 0)
  /\ (IsOp(L) /\ L.last.e.kind = "set" => L.last.e.hop = 0)
  \* a body the caller read long after the return is still the origin's
  /\ (L.last.kind = "mut" => L.last.e.body = 0)

\* --- C06 ---------------------------------------------------------------
MNS(L, T) == MustNotStore(L.tk[T].rq, L.tk[T].rep, L.tk[T].incomplete)
A06(L) == (IsOp(L) /\ L.last.e.kind = "set" /\ L.last.e.role = "ent") \/ (IsRet(L) /\ L.last.resp)
M06(L) ==
  /\ (IsOp(L) /\ L.last.e.kind = "set" =>
        /\ \A T \in L.last.toks \cap DOMAIN L.tk : ~MNS(L, T)
        /\ \A g \in L.last.tags \cap DOMAIN L.sent :
              L.sent[g].kind = "304" =>
                 /\ L.last.toks # {}
                 /\ ~Has(L.open[L.sent[g].x].rq, "no-store")
                 /\ ~(L.sent[g].rep.ccp = 1 /\ Has(L.sent[g].rep, "no-store")))
  /\ (IsRet(L) /\ L.last.fromStore => ~MNS(L, L.last.e.tok))
  /\ (IsRet(L) /\ L.last.resp /\ L.last.rq.inm = 0 /\ L.last.rq.ims = 0 => L.last.e.st # 304)

\* --- C07 ---------------------------------------------------------------
A07(L) == IsRet(L) /\ L.last.fromStore /\ L.last.e.tok \in L.last.invalBefore /\ ~L.faulted
M07(L) == A07(L) => L.last.val304

\* --- C09 / C08 must-reuse ----------------------------------------------
MustReuseT(L, T) ==
  LET R == L.last  E == R.effBefore[T] IN
  \A a \in E.ages : MustReuseRep(E.rep, CurrentAgeA(E.rep, a, R.e.t), R.rq)
A09(L) == IsRet(L) /\ L.last.cands # {} /\ \A T \in L.last.cands : MustReuseT(L, T)
Reused(L) == LET R == L.last IN R.fromStore /\ R.e.tok \in R.cands /\ ~R.contacted
M09(L) == A09(L) => Reused(L)

A08(L) == IsRet(L) /\ L.last.fromStore
M08(L) ==
  /\ (A08(L) /\ ~L.last.val304 /\ ~L.faulted =>
        ~(\E p \in L.replacedSure : p[1] = L.last.e.tok /\ p[2] = L.last.rq.sel /\ p[3] < L.last.o.seq))
  \* a freshened response that must be reused carries the 304's fields
  /\ (A09(L) /\ Reused(L) =>
        LET R == L.last  E == R.effBefore[R.e.tok] IN
        E.n304 > 0 => (R.e.tag = E.lasttag /\ SameHeaders(R.rep, E.rep)))
  /\ (A09(L) /\ ~Reused(L) => \A T \in L.last.cands : L.last.effBefore[T].n304 = 0)
  \* the fields a freshening 304 brought are replayed with the freshened response
  /\ (A08(L) /\ ~L.last.val304 /\ ~L.faulted /\ ~L.hadconc /\ L.last.e.tok \in DOMAIN L.last.effBefore
        /\ L.last.effBefore[L.last.e.tok].n304 > 0 /\ L.last.e.tok \notin L.fuzzy => L.last.e.e2eok = 1)
  \* other variants stay available after a validation result was written back for the URI
  /\ (A09(L) /\ ~Reused(L) => L.last.rq.u \notin L.vu)
M07x(L) == (A09(L) /\ ~Reused(L)) => (L.last.cands \cap L.namedxo = {})
\* an exchange never deletes what is stored for a resource of another origin (URI class = 10 * origin + path): a response
\* cannot evict another origin's entries, however its Location / Content-Location are spelled
OriginOfU(u) == u \div 10
M07o(L) == IsOp(L) /\ L.last.e.kind = "del" /\ L.last.ou >= 0 =>
             \A T \in L.last.gone \cap DOMAIN L.tk : OriginOfU(L.tk[T].rq.u) = OriginOfU(L.last.ou)

\* --- C10 ---------------------------------------------------------------
A10(L) == IsRet(L)
M10(L) ==
  /\ (IsRet(L) =>
        LET R == L.last IN
        /\ R.e.panic = 0 /\ R.e.neither = 0 /\ R.e.both = 0
        \* the client receives its correct response: the origin's body, or the read error that cut it short
        /\ (R.resp /\ R.ownTok /\ R.e.tok \in DOMAIN L.tk => R.e.bodyok = 1 \/ R.e.bodyerr = 1 \/ R.rq.m = "HEAD")
        /\ (R.e.err = 1 => Len(R.fg) > 0 /\ Failed(R.fg[Len(R.fg)]))
        /\ (R.o.hard = 1 /\ R.resp /\ R.rq.m = "GET" /\ ~Has(R.rq, "only-if-cached") =>
              (R.ownTok \/ R.ownTag \/ R.fromStore) /\ (R.ownTok => R.e.bodyok = 1)))
  /\ L.last.kind # "crash"
  \* nor does the work a round trip leaves behind hang: no goroutine of the transport is left when everything has timed out
  /\ (IsEnd(L) => L.last.e.leak_at_horizon = 0)
  \* behaviour is the same with logging enabled (the discard-logger run of the real code is the oracle)
  /\ (AGrp(L) /\ L.gk = "log" => L.obsq = L.canon)

\* --- C11 ---------------------------------------------------------------
CacheLabels == {"HIT", "STALE", "REVALIDATED"}
A11(L) == IsRet(L) /\ L.last.resp
AgeOK(L) ==
  LET R == L.last IN
  /\ R.e.nage = 1
  /\ \E a \in R.ages : (R.e.age - a <= 1 /\ a - R.e.age <= 1) \/ (a >= CAP /\ R.e.age >= CAP)
DefFresh(L) ==
  LET R == L.last IN \A a \in R.ages : MustFreshAge(R.rep, a, RqLim(R.rq)) /\ ~SatGap(R.rep, a)
M11(L) == A11(L) =>
  LET R == L.last  e == R.e IN
  /\ e.nlab = 1
  /\ e.label \in CacheLabels \cup {"MISS", "BYPASS"}
  /\ (R.fromStore /\ ~R.val304 => AgeOK(L))
  /\ (e.label = "HIT" => R.fromStore /\ ~R.contacted)
  /\ (e.label = "STALE" => R.fromStore /\ ~R.val304 /\ ~(DefFresh(L) /\ ~R.contacted /\ R.rq.mf < 0))
  /\ (e.label = "REVALIDATED" => R.fromStore /\ R.val304)
  /\ (e.label \in {"MISS", "BYPASS"} =>
        ~R.fromStore /\ (R.ownTok \/ R.ownTag \/ (e.st = 504 /\ ~R.contacted /\ e.tok = "")))
  /\ (R.fromStore => e.label \in CacheLabels)
  /\ (e.fc = "1" <=> e.label \in CacheLabels)
  /\ (e.fc # "1" => e.fc = "")

\* --- C12 ---------------------------------------------------------------
A12(L) == AGrp(L) /\ L.gk # "log"
\* numbers too large to represent are involved in the judgement of this reply
IsHuge(n) == n >= CAP
HugeRep(r) == r.ccp = 1 /\ (IsHuge(r.ma) \/ IsHuge(r.swr) \/ IsHuge(r.sie))
HugeInvolved(L) ==
  LET R == L.last IN
  \/ IsHuge(R.rq.ma) \/ IsHuge(R.rq.mf) \/ IsHuge(R.rq.ms) \/ IsHuge(R.rq.sie)
  \/ HugeRep(R.rep)
  \/ \E T \in R.cands : HugeRep(R.effBefore[T].rep)
M12(L) == A12(L) => L.obsq = L.canon

\* --- C13 ---------------------------------------------------------------
A13s(L) == IsRet(L) /\ L.last.fromStore /\ L.last.contacted /\ ~L.last.val304
A13m(L) ==
  /\ IsRet(L) /\ Len(L.last.fg) > 0 /\ SieFail(L.last.fg[Len(L.last.fg)])
  /\ L.last.rq.m = "GET" /\ L.last.rq.range = 0
  /\ Cardinality(L.last.cands) = 1
  /\ LET T == CHOOSE T \in L.last.cands : TRUE  E == L.last.effBefore[T] IN
     \A a \in E.ages : MustSie(E.rep, CurrentAgeA(E.rep, a, L.last.e.t), L.last.rq)
M13(L) ==
  /\ (A13s(L) =>
        LET R == L.last IN
        /\ SieFail(R.fg[Len(R.fg)])
        /\ \E a \in R.ages : MaySie(R.rep, a, R.rq))
  /\ (A13m(L) =>
        LET R == L.last IN
        /\ R.fromStore /\ R.e.tok \in R.cands /\ R.e.label = "STALE" /\ AgeOK(L))

\* "at least 2^31 seconds instead of wrapping around": the freshness / reuse / stale-if-error monitors hold
\* whenever such a number decided
M12x(L) == IsRet(L) /\ HugeInvolved(L) => M01(L) /\ M09(L) /\ M13(L)

\* --- C16 ---------------------------------------------------------------
A16(L) == (IsRet(L) /\ L.conc) \/ L.last.kind \in {"mut", "race"} \/ (IsEnd(L) /\ L.swrx # {})
M16(L) ==
  /\ (L.last.kind = "mut" => L.last.e.resp = 0 /\ L.last.e.req = 0 /\ L.last.e.body = 0)
  /\ L.last.kind # "race"
  \* a reply produced while other requests run is still an intact copy of one origin response
  /\ (IsRet(L) /\ L.hadconc /\ (L.last.fromStore \/ L.last.ownTok) =>
        (L.tk[L.last.e.tok].incomplete \/ (L.last.e.bodyok = 1 /\ L.last.e.bodyerr = 0)) /\ L.last.e.stsame = 1)
  /\ (IsRet(L) => L.last.e.requnch = 1)
  \* a reply never shows what the caller of ANOTHER reply wrote into that reply's header after it had been returned
  /\ (IsRet(L) => L.last.e.scrib = 0)
  \* the request belongs to the caller again after the return: what the origin is sent is what the caller passed
  \* then, not what it made of its request object later
  /\ (IsCall(L) => L.last.c.hsame = 1 /\ L.last.c.usame = 1)

\* --- C18 ---------------------------------------------------------------
A18(L) == (IsRet(L) /\ Has(L.last.rq, "only-if-cached")) \/ (IsCall(L) /\ Has(L.last.rq, "only-if-cached"))
M18(L) ==
  /\ (IsCall(L) => ~Has(L.last.rq, "only-if-cached"))
  /\ (IsRet(L) /\ Has(L.last.rq, "only-if-cached") /\ L.last.rq.m = "GET" /\ L.last.rq.range = 0 =>
        LET R == L.last IN
        /\ ~R.contacted
        /\ R.resp
        /\ (R.fromStore \/ (R.e.st = 504 /\ R.e.tok = "")))

\* --- C19 ---------------------------------------------------------------
\* Footprint.tla: an index holds at most one reference per (Vary field set, resolved values), entries are keyed by
\* the resolved values, and there is one index per URI - so pairs * (field sets + 1) bounds both, with 2 to spare
Bound(L) == Cardinality(L.pairs) * (Cardinality(L.varies) + 1) + 2
A19(L) == (IsOp(L) /\ L.nreq > 3 * Bound(L)) \/ (IsRet(L) /\ L.last.unsafeOK /\ ~L.faulted)
M19(L) ==
  /\ (IsOp(L) => L.last.e.nkeys <= Bound(L) /\ L.last.e.maxidx <= Bound(L))
  /\ (IsEnd(L) => L.last.e.nkeys <= Bound(L) /\ L.last.e.maxidx <= Bound(L))
  \* invalidation removes every key it makes unreachable - at every step: an index never goes while an entry it names is
  \* still there (a crash or a failing store between the two deletes would leave that entry behind for good)
  /\ (IsOp(L) /\ L.last.e.kind = "del" /\ ~L.faulted => L.last.e.orph = 0)
  /\ (IsRet(L) /\ L.last.unsafeOK /\ ~L.faulted =>
        \A k \in DOMAIN L.kv :
           \A T \in L.kv[k].toks \cap L.last.newInval : \E p \in L.replacedFor : p[1] = T)

\* --- C20 ---------------------------------------------------------------
SwrX(L) == {s.x : s \in L.swrx}
A20(L) == (IsRet(L) /\ L.last.e.x \in SwrX(L)) \/ (IsEnd(L) /\ L.swrx # {})
M20(L) ==
  /\ (IsRet(L) /\ L.last.e.x \in SwrX(L) => L.last.e.t = L.last.e.t0)
  /\ (IsEnd(L) =>
        /\ L.last.e.leak_at_horizon = 0
        /\ \A s \in L.swrx :
             LET bg == BgCalls(L, s.x) IN
             /\ Len(bg) = 1
             /\ (bg[1].t1 - bg[1].t0) * 1000 <= L.swr + 999
             \* (logged times saturate at 2 * 10^9: no duration can be read off beyond that)
             /\ (bg[1].kind = "cancelled" /\ bg[1].ctxdone = 1 /\ L.open[s.x].rq.cancel \notin {1, 2} /\ bg[1].t1 < 2000000000
                   => (bg[1].t1 - bg[1].t0) * 1000 >= L.swr)
             /\ (s.etag > 0 => bg[1].inm = s.etag)
             /\ (s.lm >= 0 => bg[1].ims = s.lm))

Mons(L) ==
  { <<"C01", M01(L)>>, <<"C02", M02(L)>>, <<"C03", M03(L)>>, <<"C04", M04(L)>>, <<"C05", M05(L)>>,
    <<"C06", M06(L)>>, <<"C07", M07(L) /\ M07x(L) /\ M07o(L)>>, <<"C08", M08(L)>>, <<"C09", M09(L)>>,
    <<"C10", M10(L)>>, <<"C11", M11(L)>>, <<"C12", M12(L) /\ M12x(L)>>, <<"C13", M13(L)>>, <<"C16", M16(L)>>,
    <<"C18", M18(L)>>, <<"C19", M19(L)>>, <<"C20", M20(L)>> }

\* monitors that do not depend on the order in which concurrent exchanges touched the store
ConcSafe == {"C01", "C02", "C03", "C04", "C10", "C11", "C16", "C18"}
Violated(L) == IF L.last.kind \in {"none", "quiet", "reset"} THEN {}
               ELSE { p[1] : p \in { q \in Mons(L) : ~q[2] /\ (~L.hadconc \/ q[1] \in ConcSafe) } }

Ante(L) ==
  { <<"C01", A01(L)>>, <<"C02", A02(L)>>, <<"C03", A03(L)>>, <<"C04", A04(L) /\ (L.last.rep.vs = 1 \/ Len(L.last.rep.vary) > 0)>>,
    <<"C05", A05(L)>>, <<"C06", A06(L)>>, <<"C07", (IsRet(L) /\ L.last.unsafeOK) \/ A07(L)>>,
    <<"C08", A08(L) /\ (L.last.val304 \/ L.last.effBefore[L.last.e.tok].n304 > 0)>>, <<"C09", A09(L)>>,
    <<"C10", (AGrp(L) /\ L.gk = "log") \/ (A10(L) /\ (L.last.o.nfault > 0 \/ L.last.e.err = 1 \/ (Len(L.last.fg) > 0 /\ SieFail(L.last.fg[Len(L.last.fg)]))))>>,
    <<"C11", A11(L)>>, <<"C12", A12(L) \/ (IsRet(L) /\ HugeInvolved(L))>>, <<"C13", A13s(L) \/ A13m(L) \/ (IsRet(L) /\ Len(L.last.fg) > 0 /\ SieFail(L.last.fg[Len(L.last.fg)]) /\ L.last.cands # {})>>,
    <<"C16", A16(L)>>, <<"C18", A18(L)>>, <<"C19", A19(L)>>, <<"C20", A20(L)>> }

NonTrivial(L) == IF L.last.kind \in {"none", "quiet", "reset"} THEN {} ELSE { p[1] : p \in { q \in Ante(L) : q[2] } }
=============================================================================
