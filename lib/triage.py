"""triage helper: summarise violating states of kept work directories (development aid)"""
import json, sys, re, os, collections
sys.path.insert(0, os.path.dirname(os.path.abspath(__file__)))
import vlib

def main(workdir, prop=None, limit=3):
    work = vlib.Work("triage")
    try:
        traces = []
        for root, _, files in os.walk(workdir):
            for f in files:
                if f.startswith("trace") and f.endswith(".ndjson"):
                    traces.append(os.path.join(root, f))
        viol, nt, events = vlib.validate_traces(work, sorted(traces))
        by = collections.defaultdict(list)
        for v in viol:
            for p in v["props"]:
                by[p].append(v)
        for p in sorted(by):
            print("==", p, len(by[p]), "violating states; non-trivial", nt.get(p))
        if prop:
            shown = 0
            cache = {}
            for v in by.get(prop, []):
                if shown >= limit: break
                evs = vlib.scenario_trace(v["file"], v["scn"])
                print("---", v["scn"], v["kind"], "line", v["line"])
                for e in evs:
                    if e["ev"] in ("begin",):
                        r = e["rq"]; print("  begin x%d t=%d %s fl=%s ma=%s mf=%s ms=%s sie=%s sel=%s" % (e["x"], e["t"]-500000000, r["m"], r["fl"], r["ma"], r["mf"], r["ms"], r["sie"], r["sel"]))
                    elif e["ev"] == "call":
                        m = e["rep"]; print("  call x%d bg=%d %s tag=%s tok=%s t=%d..%d inm=%s ims=%s rep=%s" % (e["x"], e["bg"], e["kind"], e["tag"], e["tok"], e["t0"]-500000000, e["t1"]-500000000, e["inm"], e["ims"], {k: (v-500000000 if k in ("date","exp","lm","reqT","respT") and isinstance(v,int) and v>1000 else v) for k, v in m.items() if k not in ("hop","fr","body","locu","locso","clocu","clocso","dateg")}))
                    elif e["ev"] == "op":
                        print("  op x%d bg=%d %s %s k=%d ok=%d toks=%s tags=%s n=%d fault=%s" % (e["x"], e["bg"], e["kind"], e["role"], e["k"], e["ok"], e["toks"], e["tags"], e["n"], e["fault"]))
                    elif e["ev"] == "ret":
                        print("  ret x%d t=%d label=%s st=%s tok=%s tag=%s age=%s err=%s%s panic=%d bodyok=%d e2eok=%d missing=%s extra=%s" % (e["x"], e["t"]-500000000, e["label"], e["st"], e["tok"], e["tag"], e["age"], e["err"], (" ("+e["errs"][:80]+")") if e["errs"] else "", e["panic"], e["bodyok"], e["e2eok"], e["missing"], e["extra"]))
                    elif e["ev"] in ("tick",):
                        print("  tick", e["d"])
                    elif e["ev"] in ("mut", "end", "crash"):
                        print(" ", {k: v for k, v in e.items() if k not in ("seq",)})
                shown += 1
    finally:
        work.close()

if __name__ == "__main__":
    main(os.path.abspath(sys.argv[1]), sys.argv[2] if len(sys.argv) > 2 else None, int(sys.argv[3]) if len(sys.argv) > 3 else 3)
