"""Shared machinery of /verif/check: build the harness from /repo's working tree,
run TLC on the specifications, replay exported behaviours into the real code,
validate the recorded traces with TLC, classify violations, write evidence."""
import hashlib
import json
import os
import re
import shutil
import subprocess
import sys
import time
from concurrent.futures import ThreadPoolExecutor

VERIF = os.path.dirname(os.path.dirname(os.path.abspath(__file__)))
REPO = os.environ.get("VERIF_REPO", "/repo")  # a scratch worktree can stand in for /repo (self-tests, seeded changes)
SPEC = os.path.join(VERIF, "spec")
HARNESS = os.path.join(VERIF, "harness")
EVID = os.environ.get("VERIF_EVIDENCE_DIR") or os.path.join(VERIF, "evidence")  # self-tests write elsewhere
NCPU = os.cpu_count() or 4

GOENV = dict(os.environ, GOFLAGS="-mod=mod", GOPROXY="off", GOSUMDB="off", GOTOOLCHAIN="local",
             CGO_ENABLED=os.environ.get("CGO_ENABLED", "1"))
GO = shutil.which("go1.26") or "go"


class Inconclusive(Exception):
    pass


def log(*a):
    print(*a, file=sys.stderr, flush=True)


class Work:
    """private scratch directory /verif/.work/<id>-<pid>, removed on exit"""

    def __init__(self, name):
        self.dir = os.path.join(VERIF, ".work", "%s-%d" % (name, os.getpid()))
        shutil.rmtree(self.dir, ignore_errors=True)
        os.makedirs(self.dir)
        self.specdir = os.path.join(self.dir, "spec")
        shutil.copytree(SPEC, self.specdir)
        self.n = 0

    def path(self, *p):
        return os.path.join(self.dir, *p)

    def fresh(self, prefix):
        self.n += 1
        return self.path("%s%d" % (prefix, self.n))

    def close(self):
        if os.environ.get("VERIF_KEEP") != "1":
            shutil.rmtree(self.dir, ignore_errors=True)


# ----------------------------------------------------------------------------
# harness

def build_harness(work, race=False, tags="verif"):
    out = work.path("harness-race.test" if race else "harness.test")
    if os.path.exists(out):
        return out
    cmd = [GO, "test", "-c", "-tags", tags, "-o", out]
    if race:
        cmd.append("-race")
    if REPO != "/repo":
        mod = work.path("alt.mod")
        with open(os.path.join(HARNESS, "go.mod")) as f:
            txt = f.read().replace("=> /repo", "=> " + REPO)
        with open(mod, "w") as f:
            f.write(txt)
        open(work.path("alt.sum"), "w").close()
        cmd += ["-modfile", mod]
    cmd.append(".")
    t = time.time()
    p = subprocess.run(cmd, cwd=HARNESS, env=GOENV, capture_output=True, text=True)
    if p.returncode != 0:
        raise Inconclusive("harness does not build against /repo:\n" + p.stdout + p.stderr)
    log("[build] harness%s in %.1fs" % (" (race)" if race else "", time.time() - t))
    return out


def _run_shard(binary, scn_file, out_base, seed, workdir, test="TestDrive", timeout=3600, extra_env=None):
    """runs one shard; restarts after a crash of the real code and records a crash event"""
    parts = []
    skip = 0
    total = sum(1 for _ in open(scn_file))
    crashes = 0
    stderr_tail = ""
    while skip < total:
        part = "%s.part%d" % (out_base, len(parts))
        env = dict(os.environ, VERIF_SCN=scn_file, VERIF_OUT=part, VERIF_SEED=str(seed), VERIF_WORK=workdir,
                   VERIF_SKIP=str(skip), GORACE="halt_on_error=0 exitcode=0 log_path=%s.race" % part)
        if extra_env:
            env.update(extra_env)
        try:
            p = subprocess.run([binary, "-test.run", "^%s$" % test, "-test.timeout", "0"], env=env, capture_output=True,
                               text=True, timeout=timeout, cwd=workdir)
            rc, err = p.returncode, (p.stdout + p.stderr)
        except subprocess.TimeoutExpired as e:
            rc, err = -9, "harness timeout\n" + str(e.stdout or "")[-2000:]
        parts.append(part)
        if rc == 0:
            break
        if "race detected during execution of test" in err and "panic:" not in err and "fatal error:" not in err:
            break  # the scenarios ran to the end; the race reports are collected below
        # the process died: find the scenario that was running
        done, running = 0, None
        lines = []
        if os.path.exists(part):
            with open(part) as f:
                lines = f.read().split("\n")
        if lines and lines[-1] and not lines[-1].endswith("}"):
            lines = lines[:-1]  # torn last line
        lines = [ln for ln in lines if ln]
        for ln in lines:
            if ln.startswith('{"backend"') or '"ev":"reset"' in ln:
                running = json.loads(ln)["scn"]
            elif '"ev":"end"' in ln:
                done += 1
                running = None
        crashes += 1
        stderr_tail = err[-3000:]
        if running is None and done > 0 and ("blocked goroutines remain" in err or "deadlock: all goroutines in bubble are blocked" in err):
            # goroutines of the transport were still blocked when the bubble of the last scenario ended: its "end"
            # event already carries the leak count (C20); go on behind it
            skip += done
            continue
        if running is None:
            # died between scenarios or before the first event: harness problem, not the code's
            raise Inconclusive("harness process died outside a scenario (rc=%s):\n%s" % (rc, stderr_tail))
        lines.append(json.dumps({"ev": "crash", "scn": running, "rc": rc, "seq": 0, "t": 0,
                                 "why": classify_crash(err)}))
        with open(part, "w") as f:
            f.write("\n".join(lines) + "\n")
        skip += done + 1
        if crashes > 50:
            raise Inconclusive("harness crashed more than 50 times in one shard; last:\n" + stderr_tail)
    with open(out_base, "w") as out:
        for part in parts:
            if os.path.exists(part):
                with open(part) as f:
                    shutil.copyfileobj(f, out)
                os.remove(part)
    races = []
    for part in parts:
        d = os.path.dirname(part)
        for fn in os.listdir(d):
            if fn.startswith(os.path.basename(part) + ".race"):
                races.append(open(os.path.join(d, fn)).read())
                os.remove(os.path.join(d, fn))
    return {"crashes": crashes, "stderr": stderr_tail, "races": races}


def classify_crash(err):
    if "deadlock: all goroutines in bubble are blocked" in err or "blocked goroutines remain" in err:
        return "hang"
    if "panic:" in err:
        m = re.search(r"panic: (.*)", err)
        return "panic: " + (m.group(1)[:200] if m else "")
    if "fatal error:" in err:
        m = re.search(r"fatal error: (.*)", err)
        return "fatal: " + (m.group(1)[:200] if m else "")
    if "DATA RACE" in err:
        return "race"
    return "exit"


def run_harness(binary, scenarios, work, seed, nproc=None, test="TestDrive", extra_env=None, tag="run"):
    """shards the scenarios over processes; returns the list of trace files"""
    nproc = max(1, min(nproc or NCPU, len(scenarios)))
    base = work.fresh(tag)
    os.makedirs(base)
    shards = [[] for _ in range(nproc)]
    groups = {}
    for i, s in enumerate(scenarios):
        g = s.get("grp") or None
        if g is None:
            shards[i % nproc].append(s)
        else:  # members of one group stay together and in order
            if g not in groups:
                groups[g] = len(groups) % nproc
            shards[groups[g]].append(s)
    jobs = []
    for i, sh in enumerate(shards):
        sf = os.path.join(base, "scn%d.ndjson" % i)
        with open(sf, "w") as f:
            for s in sh:
                f.write(json.dumps(s, separators=(",", ":")) + "\n")
        jobs.append((sf, os.path.join(base, "trace%d.ndjson" % i)))
    t = time.time()
    infos = []
    with ThreadPoolExecutor(nproc) as pool:
        futs = [pool.submit(_run_shard, binary, sf, tf, seed, base, test, 3600, extra_env) for sf, tf in jobs]
        for f in futs:
            infos.append(f.result())
    log("[harness] %d scenarios in %d shards, %.1fs, crashes=%d" % (
        len(scenarios), nproc, time.time() - t, sum(i["crashes"] for i in infos)))
    traces = [tf for _, tf in jobs]
    # data races: find the scenarios that race by running the shard's scenarios one by one
    racing = [i for i, inf in enumerate(infos) if inf["races"]]
    if racing and tag != "solo":
        found = 0
        for i in racing:
            for s in shards[i]:
                t1, inf1 = run_harness(binary, [s], work, seed, nproc=1, test=test, extra_env=extra_env, tag="solo")
                if inf1[0]["races"]:
                    found += 1
                    with open(t1[0], "a") as f:
                        f.write(json.dumps({"ev": "race", "scn": s["id"], "seq": 0, "t": 0,
                                            "report": inf1[0]["races"][0][:1500]}) + "\n")
                    traces.append(t1[0])
                if found >= 3:
                    break
            if found >= 3:
                break
        if not found:
            log("[harness] race reports in %d shards did not reproduce in solo runs" % len(racing))
    return traces, infos


# ----------------------------------------------------------------------------
# TLC

TLC_JAR = "/opt/veriftools/tla/tla2tools.jar"


def tlc(work, module, cfg_text, workers=1, timeout=1800, heap=None, extra=None, name=None, on_line=None):
    """runs TLC in the work copy of the specs; returns (rc, output, stats).  on_line(line) -> True consumes a line of
    TLC's output as it is printed (exports of millions of behaviours are never held in memory as text)"""
    name = name or module
    cfg = os.path.join(work.specdir, name + ".cfg")
    with open(cfg, "w") as f:
        f.write(cfg_text)
    meta = work.fresh("meta")
    cmd = ["timeout", str(timeout), "tlc", "-workers", str(workers), "-metadir", meta, "-config", cfg]
    if extra:
        cmd += extra
    cmd.append(module + ".tla")
    env = dict(os.environ)
    jtmp = work.path("jtmp")   # TLC unpacks its standard modules into java.io.tmpdir on every start: keep that out of /tmp
    os.makedirs(jtmp, exist_ok=True)
    env["JAVA_TOOL_OPTIONS"] = (env.get("JAVA_TOOL_OPTIONS", "") + " -Djava.io.tmpdir=%s -Xss256m" % jtmp).strip()   # deep recursive operators (CcSyntax's parser) need stack
    if heap:
        env["JAVA_TOOL_OPTIONS"] = (env.get("JAVA_TOOL_OPTIONS", "") + " -Xmx%s" % heap).strip()
    t = time.time()
    if on_line is None:
        p = subprocess.run(cmd, cwd=work.specdir, env=env, capture_output=True, text=True)
        out = p.stdout + p.stderr
    else:
        p = subprocess.Popen(cmd, cwd=work.specdir, env=env, stdout=subprocess.PIPE, stderr=subprocess.STDOUT, text=True, bufsize=1 << 20)
        kept = []
        for ln in p.stdout:
            if not on_line(ln):
                kept.append(ln)
        p.wait()
        out = "".join(kept)
    shutil.rmtree(meta, ignore_errors=True)
    stats = {"wall_s": round(time.time() - t, 2), "generated": 0, "distinct": 0, "rc": p.returncode}
    m = re.search(r"(\d+) states generated, (\d+) distinct states found", out)
    if m:
        stats["generated"], stats["distinct"] = int(m.group(1)), int(m.group(2))
    if p.returncode == 124:
        raise Inconclusive("TLC timeout on %s after %ss" % (name, timeout))
    if "java.lang.OutOfMemoryError" in out or "StackOverflowError" in out:
        raise Inconclusive("TLC resource failure on %s:\n%s" % (name, out[-1500:]))
    return p.returncode, out, stats


def printed_json(out, keep=None):
    """TLC PrintT(ToJson(x)) lines: a TLA+ string literal is a JSON string literal.
    keep(row) -> bool lets the caller thin out very large exports while they are parsed."""
    res = []
    n = 0
    for ln in out.split("\n"):
        if ln.startswith('"{') or ln.startswith('"['):
            try:
                row = json.loads(json.loads(ln))
            except Exception:
                continue
            n += 1
            if keep is None or keep(row):
                res.append(row)
    return res, n


def model_check(work, module, consts, invariants=(), props=(), workers=None, timeout=3600, export=False, name=None,
                constraint=None, view=None, extra=None, spec="Spec", keep=None):
    """exhaustive TLC run of an MC_* module; the spec must satisfy its invariants, otherwise
    the machinery itself is broken (inconclusive, never a verdict about the code)"""
    lines = ["SPECIFICATION " + spec, "CONSTANTS"]
    for k, v in consts.items():
        lines.append("  %s = %s" % (k, v))
    for i in invariants:
        lines.append("INVARIANT " + i)
    for p in props:
        lines.append("PROPERTY " + p)
    if constraint:
        lines.append("CONSTRAINT " + constraint)
    if view:
        lines.append("VIEW " + view)
    lines.append("CHECK_DEADLOCK FALSE")
    rows, count = [], [0]

    def on_line(ln):
        if not (ln.startswith('"{') or ln.startswith('"[')):
            return False
        try:
            row = json.loads(json.loads(ln))
        except Exception:
            return False
        count[0] += 1
        if keep is None:
            rows.append(row)
        elif hasattr(keep, "add"):
            keep.add(row)
        elif keep(row):
            rows.append(row)
        return True

    rc, out, stats = tlc(work, module, "\n".join(lines) + "\n", workers=workers or NCPU, timeout=timeout, name=name, extra=extra,
                         on_line=on_line if export else None)
    if rc != 0:
        raise Inconclusive("model check %s failed (rc=%d): the specification violates its own monitors or does not evaluate:\n%s"
                           % (name or module, rc, tail_of(out)))
    nexp = count[0]
    if keep is not None and hasattr(keep, "rows"):
        rows = keep.rows()
    stats["exported"] = nexp
    log("[tlc] %s %s: %d states (%d distinct), %d behaviours exported (%d kept), %.1fs" % (
        name or module, json.dumps(consts), stats["generated"], stats["distinct"], nexp, len(rows), stats["wall_s"]))
    return stats, rows, out


def tail_of(out, n=60):
    lines = [ln for ln in out.split("\n") if ln.strip() and not ln.startswith(("Semantic", "Linting", "Parsing", '"{'))]
    return "\n".join(lines[-n:])


TRACE_CFG = """SPECIFICATION TraceSpec
CONSTANT TraceFile = "%s"
INVARIANT Record
POSTCONDITION Done
CHECK_DEADLOCK FALSE
"""


def _validate_one(work, tf, i, module):
    if os.path.getsize(tf) == 0:
        return {"viol": [], "nt": {}, "events": 0, "file": tf}
    rc, out, stats = tlc(work, module, TRACE_CFG % tf, workers=1, timeout=3600, name="%s_%d_%d" % (module, os.getpid(), i),
                         heap="3g")
    viol = []
    for m in re.finditer(r'<<"VIOL", "([^"]*)", (\d+), \{([^}]*)\}, "([^"]*)">>', out):
        props = [x.strip().strip('"') for x in m.group(3).split(",") if x.strip()]
        viol.append({"scn": m.group(1), "line": int(m.group(2)), "props": props, "kind": m.group(4), "file": tf})
    nt = {m.group(1): int(m.group(2)) for m in re.finditer(r'<<"NT", "([^"]*)", (\d+)>>', out)}
    ms = re.search(r'<<"STATS", (\d+), (\d+), (\d+)>>', out)
    if rc != 0 or not ms:
        raise Inconclusive("trace validation did not complete on %s (rc=%d):\n%s" % (tf, rc, tail_of(out, 40)))
    return {"viol": viol, "nt": nt, "events": int(ms.group(1)), "file": tf, "states": stats["generated"]}


def validate_traces(work, trace_files, module="Trace", nproc=None):
    t = time.time()
    with ThreadPoolExecutor(nproc or NCPU) as pool:
        res = list(pool.map(lambda a: _validate_one(work, a[1], a[0], module), list(enumerate(trace_files))))
    viol = [v for r in res for v in r["viol"]]
    nt = {}
    for r in res:
        for k, v in r["nt"].items():
            nt[k] = nt.get(k, 0) + v
    events = sum(r["events"] for r in res)
    log("[trace] %d events in %d shards validated by TLC in %.1fs, %d violating states" % (
        events, len(trace_files), time.time() - t, len(viol)))
    return viol, nt, events


def scenario_trace(trace_file, scn):
    """the recorded events of one scenario"""
    out, on = [], False
    with open(trace_file) as f:
        for ln in f:
            if '"ev":"reset"' in ln:
                on = json.loads(ln)["scn"] == scn
            if on:
                out.append(json.loads(ln))
    return out


# ----------------------------------------------------------------------------
# verdicts, known findings, evidence

def load_known():
    p = os.path.join(VERIF, "known_findings.json")
    if not os.path.exists(p):
        return []
    return json.load(open(p))


def sig_matches(entry, sig):
    for k, v in entry.get("match", {}).items():
        if sig.get(k) != v:
            return False
    return True


def write_replay(prop, scenario, seed, trace, why):
    d = os.path.join(EVID, "replays")
    os.makedirs(d, exist_ok=True)
    blob = json.dumps(scenario, sort_keys=True)
    h = hashlib.sha1((prop + blob + str(seed)).encode()).hexdigest()[:12]
    p = os.path.join(d, "%s-%s.json" % (prop, h))
    with open(p, "w") as f:
        json.dump({"property": prop, "seed": seed, "why": why, "scenario": scenario, "trace": trace}, f, indent=1)
    return p


def write_evidence(prop, tier, seed, level, coverage, wall, violations, assumptions):
    os.makedirs(EVID, exist_ok=True)
    ev = {"property_id": prop, "tier": tier, "seed": seed, "level": level, "coverage": coverage,
          "assumptions": assumptions, "wall_s": round(wall, 2), "violations": violations}
    with open(os.path.join(EVID, prop + ".json"), "w") as f:
        json.dump(ev, f, indent=1)
    return ev
