"""Per-property plans: which models are checked, which behaviours are exported and
replayed, which extra (randomised) executions widen the value domain."""
import hashlib
import json
import os
import random
import shutil
import subprocess
import time

import gen
import vlib
from vlib import Inconclusive, log

TRUSTED = [
    "the scripted origin and the testing/synctest virtual clock stand for the network and for time",
    "abstract header classes are rendered to concrete text by the harness tables (harness/concretise.go); "
    "what a reply's header text means is recovered by table lookup of text the harness produced itself",
    "TLC evaluates the monitors of spec/Props.tla (oracle kernel spec/Rfc9111.tla) on the recorded trace",
]


class Plan:
    def __init__(self, prop, models, extra=None, level="model_checking", race=False, rule="", assumptions=None,
                 engine="http", backends=None, rows_to_scenarios=None, post=None, test="TestDrive", trace_module="Trace"):
        self.prop, self.models, self.extra, self.level, self.race = prop, models, extra, level, race
        self.rule, self.assumptions, self.engine, self.backends = rule, assumptions or TRUSTED, engine, backends
        self.rows_to_scenarios = rows_to_scenarios
        self.post = post
        self.test, self.trace_module = test, trace_module


def mc(module, tag, invariants=("NoViolation",), export=True, replay_cap=None, constraint=None, spec="Spec", props=(), extra=None,
       workers=None, convert=None, **consts):
    return {"module": module, "tag": tag, "inv": list(invariants), "export": export, "consts": consts,
            "replay_cap": replay_cap or {}, "constraint": constraint, "spec": spec, "props": list(props), "extra": extra,
            "workers": workers, "convert": convert}


def q(s):
    return '"%s"' % s


def decide_models(tier):
    cap = {"quick": 6000, "thorough": 150000}
    return [mc("MC_decide", "decideF", replay_cap=cap, Defects="{}", Family=q("F"), Tier=q(tier), Export="TRUE"),
            mc("MC_decide", "decideV", replay_cap=cap, Defects="{}", Family=q("V"), Tier=q(tier), Export="TRUE")]


DECIDE_RULE = ("behaviours = every store-tick-probe scenario of MC_decide (families F: freshness arithmetic, V: validation "
               "directives; ticks at the boundaries derived from each stored response) exported by TLC and replayed into the "
               "real transport, plus seeded random store-tick-probe-probe histories with arbitrary integers; a case is "
               "non-trivial when the antecedent of one of this property's monitors is true in the recorded trace "
               "(counted by TLC, one per distinct trace state)")

PLANS = {}
def decide_wb_models(tier):
    # what a freshening 304 leaves behind (merged fields, Age, Date) only shows in the requests after it: family wb
    return decide_models(tier) + [mc("MC_hist", "hist_wb", replay_cap={"quick": 2500, "thorough": 150000}, Defects="{}", Family=q("wb"),
                                     Tier=q(tier), Export="TRUE")]


def uri_equiv_models(tier):
    # reuse is owed for every spelling RFC 3986 calls equivalent: the equivalent pairs of the Uri model
    return [mc("Uri", "uri", invariants=("KeyExact", "NFIdempotent"), Defects="{}", Tier=q(tier), Export="TRUE",
               convert=lambda rows, tier, seed: [s_ for s_ in uri_scenarios([x for x in rows if x["equiv"] and not x["gap"]], tier, seed)
                                                 if s_["id"].startswith("uri/")])]


for _p in ("C01", "C02", "C09", "C11", "C13"):
    PLANS[_p] = Plan(_p, (lambda tier: decide_wb_models(tier) + hist_models("cond")(tier)) if _p == "C02"
                     else (lambda tier: decide_wb_models(tier) + uri_equiv_models(tier)) if _p == "C09" else decide_wb_models,
                     extra=(lambda tier, seed: gen.random_decide(tier, seed) + gen.client_conditionals(tier)) if _p == "C02"
                     else (lambda tier, seed: gen.random_decide(tier, seed) + gen.random_vary(tier, seed)) if _p == "C09"   # reuse is owed per variant
                     else gen.random_decide,
                     rule=DECIDE_RULE + "; plus the MC_hist family wb (validation by 304 with / without Cache-Control, Age, Date, by a new "
                                        "representation, in the foreground or background, then probes)")
# only-if-cached also on requests the cache never answers from its store (other methods, Range): family "store"
def c18_faults(scn, tier, seed):
    """only-if-cached holds under store faults too: the fault scenarios with the kind of failure varied (no logger groups)"""
    out = []
    for s in scn:
        if not s["id"].startswith("faults/"):
            out.append(s)
            continue
        out.append([x for x in fault_variation([s], tier, seed) if x["id"].endswith("/log0")][0] | {"grp": "", "gk": "", "spv": 0})
    return out


PLANS["C18"] = Plan("C18", lambda tier: decide_models(tier) + fault_models(tier) + [mc("MC_store", "store", Defects="{}", Family=q("store"), Tier=q(tier), Export="TRUE",
                                                                    replay_cap={"quick": 1500, "thorough": 20000})],
                    post=lambda scn, tier, seed: c18_faults(scn, tier, seed),
                    extra=gen.random_decide, rule=DECIDE_RULE + "; plus the MC_store family, in which only-if-cached rides on HEAD / POST / Range requests")


def hist_models(*fams):
    def f(tier):
        cap = {"quick": 5000, "thorough": 150000}
        return [mc("MC_hist", "hist_" + fam, replay_cap=cap, Defects="{}", Family=q(fam), Tier=q(tier), Export="TRUE") for fam in fams]
    return f


HIST_RULE = ("behaviours = every history of the MC_hist families named in model_checks (bounded scenario trees over requests with "
             "different selecting header values, origin answers whose Vary changes, unsafe requests with Location / "
             "Content-Location, validation by 304 or full reply in the foreground or background), exported by TLC and replayed "
             "into the real transport (quick: stratified sample), plus seeded random / periodic histories; non-trivial = the "
             "antecedent of one of this property's monitors is true in a recorded trace state (counted by TLC)")

FP_FIELDS = {0: [], 1: [2], 2: [2, 3], 3: [3], 4: []}


def footprint_scenarios(rows, tier, seed):
    """long behaviours of Footprint.tla (TLC simulation mode) as histories for the real transport: Tick = everything stored
    expires; the origin's answer and the request are the ones the model chose; the model's prediction of the index length and
    of the number of keys after every request rides along (drift)"""
    r = random.Random(seed * 715827883 + 59)
    out = []
    seen, uniq = set(), []
    for row in rows:  # TLC evaluates the exporting invariant more than once per behaviour
        k = json.dumps(row, sort_keys=True)
        if k not in seen:
            seen.add(k)
            uniq.append(row)
    for i, row in enumerate(uniq):
        swr = r.choice([gen.NONE, gen.NONE, 100000])
        steps = []
        for s in row["steps"]:
            if s["op"] == "tick":
                steps.append({"op": "tick", "d": 60})
                continue
            if s["op"] == "unsafe":
                loc = s["avs"]
                a = gen.ans(st=200, ccp=0, etag=0, loc1=loc + 1 if loc >= 0 else 0, locso=1 if loc >= 0 else 0)
                steps.append({"op": "req", "rq": gen.rq(u=s["u"], m=r.choice(["POST", "PUT", "DELETE"])), "ans": [a],
                              "pred": {"fp": {"n": 0, "nkeys": s["nkeys"], "w": 0}}})
                continue
            full = gen.ans(ccp=1, ma=50, etag=1, swr=swr, vary=FP_FIELDS[s["avs"]], vs=1 if s["avs"] == 4 else 0)
            how = s["how"]
            if how == "304":
                a = gen.ans(k="304", st=304, ccp=1, ma=50, etag=1, upd=1)
            elif how == "nostore":
                a = gen.ans(ccp=1, ma=50, fl=["no-store"], etag=1)
            elif how == "fail":
                a = gen.ans(k="err")
            else:
                a = full
            sel = list(s["sel"])
            if i % 2 == 1 and sel[2] == 1:
                sel[2] = 4  # the same history with a selecting value that is not UTF-8
            steps.append({"op": "req", "rq": gen.rq(u=s["u"], sel=sel, fl=["no-cache"] if s["nc"] else []), "ans": [a],
                          "pred": {"fp": {"n": s["n"], "nkeys": s["nkeys"], "w": 1 if how in ("304", "full") else 0}}})
        out.append({"id": "footprint/%04d" % i, "backend": "fs" if i % 4 == 3 else "mem", "opt": {}, "steps": steps, "grp": "", "spv": 0})
    return out


def footprint_models(tier):
    big = tier == "thorough"
    inv = ("Bounded", "OneRefPerVariant", "WellFormed")
    runs, depth = (200, 600) if big else (16, 250)
    return [mc("Footprint", "footprint1", invariants=inv, props=("InvalidationCleans",), export=False, Defects="{}", URIs="{0}", ValsA="{0, 1}",
               ValsB="{0}", VarySets="{0, 1, 2, 3, 4}" if big else "{0, 1, 2, 4}", Export="FALSE", MaxHist="0"),
            mc("Footprint", "footprint2", invariants=inv, props=("InvalidationCleans",), export=False, Defects="{}", URIs="{0, 1}", ValsA="{0, 1}",
               ValsB="{0}", VarySets="{0, 4}", Export="FALSE", MaxHist="0")] + \
           ([mc("Footprint", "footprint3", invariants=inv, props=("InvalidationCleans",), export=False, Defects="{}", URIs="{0, 1}", ValsA="{0, 1}",
                ValsB="{0}", VarySets="{0, 1}", Export="FALSE", MaxHist="0")] if big else []) + [   # ({0, 1, 4}: 1.7 M states, 43 min)
            mc("Footprint", "footprint_sim", invariants=inv + ("Exported",), export=True, convert=footprint_scenarios, workers=1,
               extra=["-simulate", "num=%d" % runs, "-depth", str(depth + 1), "-seed", "{seed}"],
               Defects="{}", URIs="{0, 1}", ValsA="{0, 1}", ValsB="{0, 1}", VarySets="{0, 1, 2, 3, 4}", Export="TRUE", MaxHist=str(depth))]


def render_uri(u):
    path = "" if not u["path"] else "/" + "/".join(u["path"])
    q_ = "" if u["query"] == "NONE" else "?" + u["query"]
    return (u["scheme"] + "://" + u["user"] + u["host"] + u["port"] + path + q_ + u["frag"]).replace("RAWE9", "\u00e9").replace("RAWFFFD", "\ufffd")


def uri_models(tier):
    return [mc("Uri", "uri", invariants=("KeyExact", "NFIdempotent"), Defects="{}", Tier=q(tier), Export="TRUE")]


METHOD_SHAPES = [("GET", 0, "HEAD", 0), ("GET", 0, "GET", 1), ("GET", 0, "POST", 0), ("HEAD", 0, "GET", 0), ("POST", 0, "GET", 0),
                 ("GET", 1, "GET", 0), ("GET", 0, "PUT", 0), ("OPTIONS", 0, "GET", 0), ("GET", 0, "X-CUSTOM", 0), ("GET", 1, "GET", 1)]
# request directives that make a cache prefer its store must not make it answer other methods / Range requests from it
SHAPE_DIRECTIVES = [{}, {"fl": ["only-if-cached"]}, {"ms": gen.NOARG}, {"fl": ["only-if-cached"], "ms": 1000}]


def uri_scenarios(rows, tier, seed):
    """store a response for render(a), then request render(b)"""
    r = random.Random(seed * 2654435761 + 9)
    cap = 16000 if tier == "quick" else 10 ** 9   # (every pair of the quick model: a pair is three to five requests)
    if len(rows) > cap:
        # all equivalent pairs and all pairs that differ in a single component, a seeded sample of the rest
        def dist(x):
            return sum(1 for k in x["a"] if x["a"][k] != x["b"][k])
        keep = [x for x in rows if x["equiv"] or dist(x) <= 1]
        rest = [x for x in rows if not (x["equiv"] or dist(x) <= 1)]
        r.shuffle(rest)
        rows = keep + rest[:max(0, cap - len(keep))]
    out = []
    a_ok = gen.ans(ccp=1, ma=100, etag=1)
    for i, x in enumerate(rows):
        ua, ub = render_uri(x["a"]), render_uri(x["b"])
        ub_u = 0 if x["equiv"] else 1
        steps = [{"op": "req", "rq": gen.rq(u=0, url=ua), "ans": [a_ok]},
                 {"op": "tick", "d": 2},
                 {"op": "req", "rq": gen.rq(u=ub_u, url=ub, ugap=1 if x["gap"] else 0), "ans": [a_ok]}]
        if not x["equiv"] and not x["gap"]:
            # both are stored now: each must keep getting its own response
            steps += [{"op": "tick", "d": 1}, {"op": "req", "rq": gen.rq(u=0, url=ua), "ans": [a_ok]},
                      {"op": "req", "rq": gen.rq(u=1, url=ub), "ans": [a_ok]}]
        out.append({"id": "uri/%06d" % i, "backend": "fs" if i % 25 == 0 else "mem", "opt": {}, "steps": steps, "grp": "", "spv": 0,
                    "meta": {"a": ua, "b": ub, "equiv": x["equiv"]}})
    out += [dict(s, id="uri" + s["id"]) for s in gen.reused_requests(tier)]   # a caller that reuses its request object for another URL
    base = "http://example.com/a?q=a"
    for j, (m1, r1, m2, r2) in enumerate(METHOD_SHAPES):
        for k, (ua, ub, same) in enumerate([(base, base, True), (base, "HTTP://EXAMPLE.com:80/./a?q=%61", True), (base, "http://example.com/a?q=b", False)]):
            for dn, dirs in enumerate(SHAPE_DIRECTIVES):
                steps = [{"op": "req", "rq": gen.rq(u=0, url=ua, m=m1, range=r1), "ans": [a_ok]},
                         {"op": "tick", "d": 1},
                         {"op": "req", "rq": gen.rq(u=0 if same else 1, url=ub, m=m2, range=r2, rawkeys=[0, 1, 3][(j + k + dn) % 3], **dirs), "ans": [a_ok]},
                         {"op": "tick", "d": 1},
                         {"op": "req", "rq": gen.rq(u=0, url=ua), "ans": [a_ok]}]
                out.append({"id": "urim/%02d-%d-%d" % (j, k, dn), "backend": "mem", "opt": {}, "steps": steps, "grp": "", "spv": 0})
    return out


PLANS["C04"] = Plan("C04", hist_models("vary", "wb"), extra=gen.random_vary, rule=HIST_RULE)
PLANS["C07"] = Plan("C07", hist_models("inval"), extra=gen.random_inval, rule=HIST_RULE)
PLANS["C08"] = Plan("C08", hist_models("wb", "vary"), extra=gen.random_vary, rule=HIST_RULE)
PLANS["C19"] = None  # defined below (needs footprint_models)
def store_models(tier):
    return [mc("MC_store", "store", Defects="{}", Family=q("store"), Tier=q(tier), Export="TRUE", replay_cap={"quick": 4000})]


def bytes_models(tier):
    return [mc("MC_store", "bytes", Defects="{}", Family=q("bytes"), Tier=q(tier), Export="TRUE")]


def bytes_scenarios(rows, tier, seed):
    out = []
    for i, r in enumerate(rows):
        for j, be in enumerate(("mem", "fs", "fsenc")):
            # the origin writes its dates in any of the three HTTP-date formats: they are header bytes like any other
            steps = [dict(st, ans=[dict(a, dfmt=(i + j) % 3) for a in st.get("ans", [])]) if st.get("op") == "req" else st for st in r["steps"]]
            out.append({"id": "bytes/%05d-%s" % (i, be), "backend": be, "opt": {}, "steps": steps, "grp": "", "spv": 0})
    return out


PLANS["C06"] = Plan("C06", lambda tier: store_models(tier) + hist_models("wb", "cond")(tier), extra=gen.random_store,
                    rule="behaviours = the MC_store table (status x response directives x explicit freshness x request shape x "
                         "complete / failing body, then a probe) exported by TLC and replayed, plus seeded random exchanges over "
                         "all statuses 100-599 and body streams failing at every byte of a small body; the NothingStored monitor "
                         "is evaluated by TLC on every write the store receives; non-trivial = a store write or a reply was judged")
PLANS["C05"] = Plan("C05", bytes_models, extra=gen.random_bytes, rows_to_scenarios=bytes_scenarios, level="model_checking",
                    rule="configurations = framing (Content-Length, chunked, close-delimited, HTTP/1.0, HTTP/2-shaped, chunked with "
                         "trailer) x body class (text, empty, CR/LF/NUL and HTTP-like text, 64 KiB and 1 MiB random bytes, seeded "
                         "small random) x hop-by-hop fields x upstream Age x backend (memory, file system, encrypted file system), "
                         "enumerated by TLC (MC_store family bytes) with the model saying which origin response each reply must "
                         "copy; the byte comparison itself is a harness observation asserted by the ByteFaithful monitor; "
                         "non-trivial = a reply from the store or a forwarded miss was compared",
                    assumptions=TRUSTED + ["byte equality of bodies and end-to-end header values is computed by the harness "
                                           "(Go string comparison), not by TLC; the specification decides which response a reply "
                                           "has to equal and which configurations exist"])
def spelling_models(tier):
    cap = {"quick": 700, "thorough": 12000}
    return [mc("MC_decide", "decideF", replay_cap=cap, Defects="{}", Family=q("F"), Tier=q("quick"), Export="TRUE"),
            mc("MC_decide", "decideV", replay_cap=cap, Defects="{}", Family=q("V"), Tier=q("quick"), Export="TRUE"),
            mc("MC_hist", "hist_wb", replay_cap={"quick": 300, "thorough": 5000}, Defects="{}", Family=q("wb"), Tier=q("quick"), Export="TRUE"),
            mc("CcSyntax", "ccsyntax", invariants=("ParseExact", "CanonicalOK"), convert=lambda rows, tier, seed: cc_scenarios(rows, tier, seed),
               Defects="{}", Tier=q(tier), Export="TRUE")]


NSPELL = 7


def cc_scenarios(rows, tier, seed):
    """texts of CcSyntax.tla on the wire: for every directive list a scenario whose outcome depends on its meaning, executed with
    the canonical text and with sampled rewrites (group: the observations must be those of the canonical run)"""
    r = random.Random(seed * 694847539 + 61)
    bydl = {}
    for row in rows:
        bydl.setdefault(row["dl"], []).append(row)
    ngroups, per = (4, 12) if tier == "quick" else (25, 12)
    out = []

    def text(lines):
        return ["".join(l) for l in lines]

    for dl in sorted(bydl):
        rows_dl = bydl[dl]
        r.shuffle(rows_dl)
        for g in range(ngroups):
            members = rows_dl[g * per:(g + 1) * per]
            if not members:
                break
            first = members[0]
            variants = [text(first["canon"])] + [text(m["lines"]) for m in members]
            for spv, ccl in enumerate(variants):
                a = first["abs"]
                plain = gen.ans(ccp=1, ma=5, etag=1)
                other = gen.ans(ccp=1, ma=50, etag=2)
                if first["kind"] == "resp":
                    stored = gen.ans(ccp=1, ma=a["ma"], swr=a["swr"], sie=a["sie"], fl=list(a["fl"]), ncf=a["ncf"], etag=1, ccl=ccl)
                    probes = [gen.rq(), gen.rq(), gen.rq(), gen.rq()]
                else:
                    stored = plain
                    q_ = gen.rq(ma=a["ma"], ms=a["ms"], mf=a["mf"], sie=a["sie"], fl=list(a["fl"]), ccl=ccl)
                    probes = [q_, dict(q_), dict(q_), gen.rq()]
                steps = [{"op": "req", "rq": gen.rq(), "ans": [stored]}, {"op": "tick", "d": 3},
                         {"op": "req", "rq": probes[0], "ans": [gen.ans(k="304", st=304, ccp=0, etag=1, upd=1), other]}, {"op": "tick", "d": 4},
                         {"op": "req", "rq": probes[1], "ans": [gen.ans(k="err")]}, {"op": "tick", "d": 1},
                         {"op": "req", "rq": probes[2], "ans": [other]}, {"op": "tick", "d": 30},
                         {"op": "req", "rq": probes[3], "ans": [other]}]
                gid = "cc/%02d/%02d" % (dl, g)
                out.append({"id": "%s/v%02d" % (gid, spv), "backend": "mem", "opt": {}, "steps": steps, "grp": gid, "spv": spv,
                            "meta": {"cc": ccl}})
    return out


def spelling_groups(rows_scn, tier, seed):
    """each behaviour in its canonical spelling and in every rewritten spelling; the runs of one
    group must show the same abstract observations (monitor SpellingInvariant)"""
    out = []
    for s in rows_scn:
        if s.get("grp"):  # already a member of a group (CcSyntax.tla)
            out.append(s)
            continue
        for sp in range(NSPELL):
            steps = []
            for st in s["steps"]:
                if st.get("op") != "req":
                    steps.append(st)
                    continue
                st2 = dict(st)
                st2["rq"] = dict(st["rq"], sp=sp)
                st2["ans"] = [dict(a, sp=sp) for a in st.get("ans", [])]
                steps.append(st2)
            out.append(dict(s, id="%s/sp%d" % (s["id"], sp), steps=steps, grp=s["id"], spv=sp))
    return out


PLANS["C12"] = Plan("C12", spelling_models, post=spelling_groups,
                    rule="behaviours = a stratified sample of the MC_decide table (rows where directives decide the outcome) plus "
                         "seeded random histories, each executed in the canonical single-line lower-case spelling and in 6 rewritten "
                         "spellings (letter case, optional whitespace and empty list elements, quoted-string arguments, one field "
                         "line per directive, reversed order with unknown extensions incl. a quoted one containing directive-like "
                         "text, all at once); numbers standing for >= 2^31 are rendered with different huge spellings (up to 10^30) "
                         "in every run; the canonical run of the real code is the oracle: TLC compares the abstract observation "
                         "sequences of each group; non-trivial = a rewritten run was compared with its canonical run",
                    extra=lambda tier, seed: gen.random_decide(tier, seed, n=150 if tier == "quick" else 4000))
def fault_models(tier):
    return [mc("MC_faults", "faults", Defects="{}", Tier=q(tier), Export="TRUE", replay_cap={"quick": 3000})]


GET_KINDS = ["err", "notexist", "garbage", "null", "empty", "nullobj", "idxgarbage", "trunc", "flip", "extend"]


def fault_variation(scn, tier, seed):
    """the model places faults as plain errors; the replay varies the kind of failure per operation type
    (error, not-exist, garbage, '[null]', empty, truncated, flipped ...) and runs every behaviour with the
    discard logger and with a debug-level logger (group: same observations required)"""
    r = random.Random(seed * 7368787 + 23)
    out = []
    for s in scn:
        if s["id"].startswith("swr_"):
            # timing scenarios: one run each, with the debug-level logger on (which run of two meets a timeout first is
            # not an observation the logger comparison could be held to)
            out.append(dict(s, opt=dict(s.get("opt") or {}, log=1)))
            continue
        steps = []
        for st in s["steps"]:
            if st.get("op") != "req" or not st.get("faults"):
                steps.append(st)
                continue
            ops = (st.get("pred") or {}).get("ops") or []
            fl = []
            for f in st["faults"]:
                if f.get("kind") not in (None, "", "err"):
                    fl.append(f)   # a scenario that names its kind of failure keeps it (byte mutations at given positions)
                    continue
                kind = "err"
                if f["n"] <= len(ops) and ops[f["n"] - 1] == "get" and r.random() < 0.8:
                    kind = r.choice(GET_KINDS)
                fl.append({"n": f["n"], "kind": kind, "pos": r.randrange(0, 200)})
            steps.append(dict(st, faults=fl))
        for lg in (0, 1):
            out.append(dict(s, id="%s/log%d" % (s["id"], lg), steps=steps, grp=s["id"], spv=lg, gk="log", opt=dict(s.get("opt") or {}, log=lg),
                            backend="fs" if hash(s["id"]) % 7 == 0 else "mem"))
    return out


def c10_models(tier):
    # the logger comparison runs over more than fault scenarios: unsafe methods with every status, every stored status
    return fault_models(tier) + hist_models("inval")(tier) + \
        [mc("MC_store", "store", Defects="{}", Family=q("store"), Tier=q(tier), Export="TRUE", replay_cap={"quick": 1200, "thorough": 20000}),
         # origin failures during background revalidation include the answer that never comes: the timeout has to end it cleanly
         mc("MC_swr", "swr_1000", Defects="{}", Tier=q(tier), Export="TRUE", SwrSetting="1000", replay_cap={"quick": 500, "thorough": 20000})]


PLANS["C10"] = Plan("C10", c10_models, post=fault_variation, extra=gen.byte_mutations, level="model_checking",
                    rule="behaviours = every store-tick-probe-tick-probe scenario of MC_faults in which each store operation of the "
                         "probing exchange fails or returns undecodable bytes, singly and in pairs, combined with origin errors / 5xx "
                         "during validation and background revalidation (fault placement is a choice of the model, enumerated "
                         "exhaustively by TLC); on replay the kind of failure is varied per operation (error, not-exist, garbage, "
                         "'[null]', 'null', empty, truncated, bit flip, extended) and each behaviour runs with the discard logger and "
                         "a debug-level logger (observations must agree); plus byte mutations / truncations of a stored index and "
                         "entry at every position; a process crash or deadlock of the real code inside a scenario is a violation; "
                         "non-trivial = an exchange with a fault, an origin failure or a logger comparison was judged")
def conc_models(tier):
    return [mc("MC_conc", "conc", Defects="{}", Tier=q(tier), Export="TRUE", replay_cap={"quick": 2500, "thorough": 60000})]


def conc_scenarios(rows, tier, seed):
    """the two concurrent exchanges of an MC_conc behaviour become one scheduled `conc` step: the gate releases the
    store operations and origin calls of the two goroutines in the order the model produced"""
    r = random.Random(seed * 982451653 + 53)
    cap = 2500 if tier == "quick" else 60000
    if len(rows) > cap:
        rows = r.sample(rows, cap)
    out = []
    for i, row in enumerate(rows):
        steps, par, at = [], {}, None
        for st in row["steps"]:
            if st.get("op") == "req" and st.get("x") in (3, 4):
                if at is None:
                    at = len(steps)
                    steps.append(None)
                par[st["x"]] = st
            else:
                steps.append(st)
        if at is None or len(par) != 2:
            continue
        steps[at] = {"op": "conc", "par": [par[3], par[4]], "sched": [0 if x == 3 else 1 for x in row["gseq"] if x in (3, 4)]}
        out.append({"id": "conc/%06d" % i, "backend": "fs" if i % 5 == 4 else "mem", "opt": {}, "steps": steps, "grp": "", "spv": 0})
    return out


PLANS["C16"] = Plan("C16", conc_models, extra=lambda tier, seed: gen.concurrent(tier, seed) + gen.reused_requests(tier),
                    rows_to_scenarios=conc_scenarios, race=True, level="model_checking",
                    rule="MC_conc: every interleaving, at the granularity of store operations and origin calls, of two concurrent "
                         "requests (same variant, other variant, unsafe method; thorough: other URI, no-cache) and the background "
                         "revalidation a stale-while-revalidate serve leaves behind, after a prefix that stored two variants, followed "
                         "by two probes; exported by TLC with the order of the gated operations and replayed by gating the goroutines "
                         "of the real transport at exactly those operations (quick: a seeded sample); plus free-running concurrent "
                         "rounds; everything is built with the Go race detector; non-trivial = a reply produced during or after a "
                         "concurrent phase, a mutation report or a race report was judged")
def swr_models(tier):
    settings = [0, 1000, 999999] if tier == "quick" else [0, 1000, 2000, 5000, 10000, 999999]
    return [mc("MC_swr", "swr_%d" % s_, Defects="{}", Tier=q(tier), Export="TRUE", SwrSetting=str(s_)) for s_ in settings]


PLANS["C20"] = Plan("C20", swr_models, race=False,
                    rule="behaviours = every scenario of MC_swr: a stored response served stale under stale-while-revalidate while the "
                         "background request is answered after 0, 1, T-1, T, T+1, T+4 seconds or never, with 304 / full reply / error / "
                         "503, for each WithSWRTimeout setting (not given, 1 s, negative; thorough adds 2 s, 5 s, 10 s) and with the "
                         "caller's context cancelled before the call, right after the return or never; exported by TLC and replayed "
                         "on the virtual clock; the SwrTiming monitor checks the foreground elapsed time (0 s), exactly one background "
                         "request with the stored validators, its cancellation at the effective timeout and that no goroutine of "
                         "the transport is left at the horizon; non-trivial = a stale-while-revalidate exchange or its end was judged")
KV_TRUSTED = ["values are identified by SHA-256 of the returned bytes computed by the harness; a strict prefix of a known value counts as torn",
              "the kernel's file semantics (atomic rename, truncate, unlink) as modelled in FsAtomic.tla",
              "TLC applies every recorded operation to the reference map of spec/KVStore.tla and judges its outcome (spec/TraceKV.tla)"]


def kv_models(tier):
    return [mc("MC_kv", "kv", invariants=("OneValue", "Exported"), Depth="3" if tier == "quick" else "4", Export="TRUE"),
            mc("FsLayout", "fslayout", invariants=("Refines", "NoFailure"), export=False, constraint="Small",
               DirMarker="TRUE", Threshold="1", Frag="2", MaxLen="4")]


def atomic_models(tier):
    big = tier == "thorough"
    return [mc("FsAtomic", "fsatomic", invariants=("NoTornRead", "LiveComplete", "NoLostValue", "LiveKept"), export=False,
               Writers="{1, 2, 3}" if big else "{1, 2}", Readers="{1, 2}" if big else "{1}", Deleters="{1}", Vals="{1, 2}",
               Chunks="3" if big else "2", WriteMode=q("rename"), TmpNames=q("unique"), Touch=q("lenient")),
            mc("MC_fsched", "fsched", invariants=("NoTornRead", "NoLostValue", "Exported"), export=True, spec="SSpec",
               Writers="{1, 2}", Readers="{1}", Deleters="{1}" if big else "{}", Vals="{1, 2}", Chunks="1",
               WriteMode=q("rename"), TmpNames=q("unique"), Touch=q("off"), Export="TRUE")]


def sched_scenarios(rows, tier, seed):
    """every schedule of MC_fsched replayed on a real directory (quick: a seeded sample)"""
    import base64
    r = random.Random(seed * 275604541 + 47)
    cap = 600 if tier == "quick" else 10 ** 9
    if len(rows) > cap:
        rows = r.sample(rows, cap)
    out = []
    key = base64.b64encode(b"the-contended-key").decode()
    for i, row in enumerate(rows):
        be = "fsenc" if i % 3 == 2 else "fs"
        vals = [{"len": 3000 + 7 * (i % 5), "seed": 101}, {"len": 90000 if i % 4 == 0 else 2000, "seed": 202}]
        out.append({"id": "sched/%05d" % i, "backend": be, "keys": [key], "vals": vals,
                    "ops": [{"op": "sched", "k": 0, "sched": row["sched"], "reads": row["reads"]}, {"op": "get", "k": 0}, {"op": "keys", "p": -1}]})
    return out


PLANS["C14"] = Plan("C14", kv_models, extra=gen.kv_random, rows_to_scenarios=gen.kv_from_rows, test="TestKV", trace_module="TraceKV",
                    assumptions=KV_TRUSTED,
                    rule="operation sequences = every sequence of Set / Get / Delete / Keys / Reopen up to the depth in model_checks over "
                         "three keys that are prefixes of each other and two values (MC_kv, exported by TLC with the outcome the "
                         "reference map prescribes), rendered to adversarial concrete keys (36-byte fragments, 191/192/255-byte "
                         "file-name boundaries, arbitrary bytes, URL-shaped keys with '#', the empty key) on memory / file system / "
                         "encrypted file system, partly through the expapi HTTP handlers; plus long random sequences over six keys; "
                         "FsLayout.tla checks the file-name design at model scale; non-trivial = a Get / Delete / listing was judged")
PLANS["C15"] = Plan("C15", atomic_models, extra=gen.kv_cuts, rows_to_scenarios=sched_scenarios, test="TestKV", trace_module="TraceKV", assumptions=KV_TRUSTED,
                    level="model_checking",
                    rule="FsAtomic.tla: all interleavings of the file-level steps of concurrent Set / Get / Delete on one key with "
                         "write failure and process kill at every step (exhaustive TLC run of the rename-based design); binding: a "
                         "writer child process is cut short by a file size limit at every byte 0..len(+overhead) of the value, or "
                         "kills itself at every hook step of set() and at random instants, with and without a previous value, with "
                         "and without encryption; afterwards Get / Keys / reopen must behave as the map with the old or the new "
                         "value or absent; non-trivial = a Get after a cut or killed write was judged")
def enc_models(tier):
    inv = ("Judged", "FreshNonces", "NoPlaintext", "SameFiles", "Exported")
    big = tier == "thorough"
    return [mc("MC_enc", "enc_kv", invariants=inv, Defects="{}", Depth="5" if big else "4", Family=q("kv"), Export="TRUE"),
            mc("MC_enc", "enc_rt", invariants=inv, Defects="{}", Depth="4", Family=q("rt"), Export="TRUE"),
            mc("MC_enc", "enc_open", invariants=inv, Defects="{}", Depth="1", Family=q("open"), Export="TRUE")]


PLANS["C17"] = Plan("C17", enc_models, extra=gen.kv_crypto, rows_to_scenarios=gen.enc_from_rows, test="TestKV", trace_module="TraceKV",
                    level="model_checking", race=True,
                    assumptions=KV_TRUSTED + ["nothing is claimed about cryptographic strength; only the observable protocol: no 16-byte "
                                              "window of the value in any file, fresh ciphertext per write, rejection of modified files"],
                    rule="for values of several sizes on the encrypted backend: every byte position of the stored file is bit-flipped "
                         "and the file truncated there (quick: every 3rd position for longer files), extended, or swapped with another "
                         "key's file, then read; the same value is written three times; the store is reopened with another key and "
                         "without encryption; every way of switching encryption on (option, DSN on / aesgcm, DSN + environment key) "
                         "with valid, missing, empty, malformed and wrong-length keys; judged by TLC against KVStore.tla; "
                         "non-trivial = an operation under encryption was judged")
PLANS["C19"] = Plan("C19", lambda tier: footprint_models(tier) + hist_models("vary", "inval")(tier), extra=gen.periodic,
                    rule="Footprint.tla: TLC explores ALL reachable store states (variant indexes, entries, freshness) under unbounded "
                         "repetition of the request alphabet - the state space is finite - and checks Bounded / OneRefPerVariant / "
                         "InvalidationCleans in every one; long behaviours of the same model from TLC's simulation mode are replayed into "
                         "the real transport with the predicted index length and key count after every request; " + HIST_RULE)
PLANS["C03"] = Plan("C03", uri_models, rows_to_scenarios=uri_scenarios,
                    rule="pairs (a, b) = every base URI of Uri.tla with up to two components replaced from the component alphabets "
                         "(scheme / host incl. IP literals / port / path segments incl. escapes, raw non-ASCII and dot segments / "
                         "query / fragment / userinfo), enumerated and classified (equivalent or not under RFC 3986 6.2.2-6.2.3) by TLC; "
                         "for each pair a response is stored for render(a) and render(b) is requested; plus method / Range shapes; "
                         "non-trivial = the second request was answered from the store, or the kernel says it had to be")


# ----------------------------------------------------------------------------

def setup():
    t = time.time()
    for tool in ("tlc", "tla-sany", vlib.GO):
        if not shutil.which(tool):
            print("missing tool: " + tool)
            return 2
    work = vlib.Work("setup")
    try:
        for f in sorted(os.listdir(vlib.SPEC)):
            if f.endswith(".tla"):
                p = subprocess.run(["tla-sany", f], cwd=work.specdir, capture_output=True, text=True)
                if p.returncode != 0 or "Semantic errors" in p.stdout or "***Parse Error***" in p.stdout:
                    print("SANY rejects %s:\n%s" % (f, p.stdout[-2000:]))
                    return 2
        vlib.build_harness(work, race=False)
        vlib.build_harness(work, race=True)
    finally:
        work.close()
    print("setup ok in %.1fs" % (time.time() - t))
    return 0


def respell(steps, sp):
    out = []
    for st in steps:
        if st.get("op") != "req":
            out.append(st)
            continue
        st2 = dict(st)
        st2["rq"] = dict(st["rq"], sp=sp)
        # the three HTTP-date formats mean the same, and so do a missing Date and one that cannot be parsed
        st2["ans"] = [dict(a, sp=sp, dfmt=3 if (a.get("nodate") == 1 and sp % 2 == 1) else sp % 3) for a in st.get("ans", [])]
        out.append(st2)
    return out


def scenarios_from_rows(rows, tag, backend_of):
    out = []
    for i, r in enumerate(rows):
        sid = "%s/%06d" % (tag, i)
        if i % 3 == 2:  # behaviour depends on the meaning of the directives only: every third replay is re-spelled
            r = dict(r, steps=respell(r["steps"], 1 + (i // 3) % 6))
        opt = dict(r.get("opt", {}))
        if i % 7 == 3:  # ... nor on the time zone the process happens to run in
            opt["tz"] = [-5, 2, 13, -11][(i // 7) % 4]
        out.append({"id": sid, "backend": backend_of(i), "opt": opt, "steps": r["steps"], "grp": "", "spv": 0})
    return out


def stratum(scn):
    """decision branch x directive pattern of the last exchange, as the model predicts it"""
    reqs = [st for st in scn["steps"] if st.get("op") == "req"]
    last = reqs[-1]
    p, rq = last.get("pred", {}), last["rq"]
    first = reqs[0]["ans"][0] if reqs and reqs[0].get("ans") else {}
    return (p.get("label"), p.get("ncalls"), p.get("err"), tuple(rq.get("fl", [])), rq.get("ma", -1) >= 0, rq.get("ms", -1) != -1,
            rq.get("mf", -1) >= 0, rq.get("sie", -1) >= 0, tuple(first.get("fl", [])), first.get("swr", -1) >= 0,
            first.get("sie", -1) >= 0, tuple(a.get("k") + str(a.get("st")) for a in last.get("ans", [])))


def row_hash(row, seed):
    """a number in [0, 1) that depends on the content of the row and the seed only (TLC prints rows in any order)"""
    h = hashlib.blake2b((json.dumps(row, sort_keys=True) + "#%d" % seed).encode(), digest_size=8).digest()
    return int.from_bytes(h, "big") / 2.0 ** 64


class Thinner:
    """bounds the memory of very large exports while they are parsed, independently of the order in which TLC prints the
    rows: a row is kept when its content hash is below a threshold that is halved whenever more than 4 * cap such rows
    are held, or when it is among the `per` rows with the smallest hashes of its stratum; rows() returns them ordered by
    hash, so that scenario ids - and with them every later seeded choice - are a function of (rows, seed) alone"""

    def __init__(self, cap, seed):
        self.per = max(4, cap // 2000)
        self.limit = 4 * cap
        self.seed = seed
        self.theta = 1.0
        self.low = []        # (hash, row) with hash < theta
        self.strata = {}     # stratum -> list of (hash, row), at most per, smallest hashes

    def add(self, row):
        h = row_hash(row, self.seed)
        try:
            k = stratum(row)
        except Exception:
            k = None
        if k is not None:
            s = self.strata.setdefault(k, [])
            if len(s) < self.per:
                s.append((h, row))
                s.sort(key=lambda p: p[0])
            elif h < s[-1][0]:
                s[-1] = (h, row)
                s.sort(key=lambda p: p[0])
        if h < self.theta:
            self.low.append((h, row))
            while len(self.low) > self.limit:
                self.theta /= 2
                self.low = [p for p in self.low if p[0] < self.theta]

    def rows(self):
        seen, out = set(), []
        for h, row in sorted(self.low + [p for s in self.strata.values() for p in s], key=lambda p: p[0]):
            if h not in seen:
                seen.add(h)
                out.append(row)
        return out


def canonical_order(rows, seed):
    return [r for _, r in sorted(((row_hash(r, seed), r) for r in rows), key=lambda p: p[0])]


def stratified(scn, cap, seed):
    """seeded sample that keeps every stratum (at least a few rows of each)"""
    r = random.Random(seed * 1000003 + 11)
    groups = {}
    for s in scn:
        groups.setdefault(stratum(s), []).append(s)
    keys = sorted(groups, key=repr)
    per = max(2, cap // max(1, len(keys)))
    out = []
    for k in keys:
        g = groups[k]
        r.shuffle(g)
        out += g[:per]
    rest = [s for k in keys for s in groups[k][per:]]
    r.shuffle(rest)
    out += rest[:max(0, cap - len(out))]
    out.sort(key=lambda s: s["id"])
    return out


def drift_of(scn, events):
    """spec -> code comparison: the model's prediction of every reply vs. what the code returned"""
    if "ops" in scn:
        diffs = []
        kvs = [e for e in events if e.get("ev") == "kv"]
        for i, (o, e) in enumerate(zip(scn["ops"], kvs)):
            p = o.get("pred")
            if not p:
                continue
            if p["ok"] != e["ok"] and not (o["op"] in ("keys", "api_list") and e.get("st") == 501):
                diffs.append("op%d %s ok: model %r code %r" % (i, e["op"], p["ok"], e["ok"]))
            if o["op"] in ("get", "api_get") and p["ok"] == 1 and p["rv"] != e["rv"]:
                diffs.append("op%d get rv: model %r code %r" % (i, p["rv"], e["rv"]))
            if o["op"] in ("keys", "api_list") and e.get("st") != 501 and list(p["keys"]) != list(e["keys"]):
                diffs.append("op%d keys: model %r code %r" % (i, p["keys"], e["keys"]))
        return diffs
    preds = []
    if scn["id"].startswith("footprint/"):
        return footprint_drift(scn, events)
    for s in scn["steps"]:
        if s.get("op") == "req":
            preds.append(s.get("pred"))
        elif s.get("op") == "conc":
            if not s.get("sched"):
                return []  # free-running: no prediction
            preds += [p.get("pred") for p in s["par"]]
    byx = {e["x"]: e for e in events if e.get("ev") == "ret"}
    rets = [byx.get(i + 1) for i in range(len(preds))]
    ops = {}
    for e in events:
        if e.get("ev") == "op" and e.get("bg") == 0:
            ops.setdefault(e["x"], []).append(e["kind"])
    diffs = []
    for i, (p, r) in enumerate(zip(preds, rets)):
        if not p or not r:
            continue
        for k in ("label", "st", "tok", "tag", "age", "err"):
            if p.get(k) != r.get(k):
                diffs.append("x%d.%s: model %r code %r" % (i + 1, k, p.get(k), r.get(k)))
        if p.get("ops") is not None and p["ops"] != ops.get(r["x"], []):
            diffs.append("x%d.ops: model %r code %r" % (i + 1, p["ops"], ops.get(r["x"], [])))
    return diffs


def footprint_drift(scn, events):
    """Footprint.tla predicts, for every request, the length of the index that is written and the number of keys afterwards"""
    preds = [s["pred"]["fp"] for s in scn["steps"] if s.get("op") == "req"]
    last, lastidx = {}, {}
    for e in events:
        if e.get("ev") == "op":
            last[e["x"]] = e
            if e["kind"] == "set" and e["role"] == "idx":
                lastidx[e["x"]] = e
    diffs = []
    for i, p in enumerate(preds):
        x = i + 1
        if p["w"] and (x not in lastidx or lastidx[x]["n"] != p["n"]):
            diffs.append("x%d index length: model %r code %r" % (x, p["n"], lastidx.get(x, {}).get("n")))
        if x in last and last[x]["kind"] in ("set", "del") and last[x]["nkeys"] != p["nkeys"]:
            diffs.append("x%d keys: model %r code %r" % (x, p["nkeys"], last[x]["nkeys"]))
    return diffs


def run_property(prop, tier, seed):
    plan = PLANS[prop]
    if plan.engine != "http":
        return plan.engine(prop, tier, seed)
    t0 = time.time()
    work = vlib.Work(prop)
    try:
        binary = vlib.build_harness(work, race=plan.race)
        # 1. the specification itself: exhaustive TLC runs, behaviours exported
        scenarios, states, transitions, mcinfo = [], 0, 0, []
        for m in plan.models(tier):
            cap = m.get("replay_cap", {}).get(tier)
            stats, rows, _ = vlib.model_check(work, m["module"], m["consts"], invariants=m["inv"], export=m["export"], name=m["tag"],
                                              constraint=m.get("constraint"), spec=m.get("spec", "Spec"), props=m.get("props", ()),
                                              extra=[x.replace("{seed}", str(seed)) for x in m["extra"]] if m.get("extra") else None,
                                              workers=m.get("workers"),
                                              keep=Thinner(cap, seed) if cap and not plan.rows_to_scenarios and not m.get("convert") else None)
            if not (cap and not plan.rows_to_scenarios and not m.get("convert")):
                rows = canonical_order(rows, seed)  # TLC's workers print in any order
            states += stats["distinct"]
            transitions += stats["generated"]
            mcinfo.append({"config": m["tag"], "constants": m["consts"], "distinct_states": stats["distinct"],
                           "states_generated": stats["generated"], "behaviours_exported": stats.get("exported", len(rows)), "wall_s": stats["wall_s"]})
            be = plan.backends or (lambda i: "mem")
            if not m["export"]:
                continue
            if m.get("convert"):
                scn = m["convert"](rows, tier, seed)
            elif plan.rows_to_scenarios:
                scn = plan.rows_to_scenarios(rows, tier, seed)
            else:
                scn = scenarios_from_rows(rows, m["tag"], be)
            cap = m.get("replay_cap", {}).get(tier)
            if cap and len(scn) > cap and not m.get("convert"):
                scn = stratified(scn, cap, seed)
            mcinfo[-1]["behaviours_replayed"] = len(scn)
            scenarios += scn
        nmodel = len(scenarios)
        if plan.extra:
            scenarios += plan.extra(tier, seed)
        if plan.post:
            scenarios = plan.post(scenarios, tier, seed)
        if not scenarios:
            raise Inconclusive("no behaviours to replay")
        byid = {s["id"]: s for s in scenarios}
        # 2. replay into the real code, 3. validate what the code did
        traces, infos = vlib.run_harness(binary, scenarios, work, seed, test=plan.test)
        # (16 acceptors of a couple of GB each next to a large Python heap: half of them at a time for very large runs)
        viol, nt, events = vlib.validate_traces(work, traces, module=plan.trace_module, nproc=8 if len(scenarios) > 200000 else None)
        mine = [v for v in viol if prop in v["props"]]
        others = sorted({p for v in viol for p in v["props"] if p != prop})
        # drift accounting on a sample of traces (model prediction vs code)
        drift, drift_samples, checked = 0, [], 0
        samples = []
        for tf in (traces if len(scenarios) <= 20000 else traces[:4]):
            cur, evs = None, []
            with open(tf) as f:
                for ln in f:
                    e = json.loads(ln)
                    if e["ev"] == "reset":
                        cur, evs = e["scn"], []
                    evs.append(e)
                    if e["ev"] == "end" and cur in byid:
                        d = drift_of(byid[cur], evs)
                        checked += 1
                        if d:
                            drift += 1
                            if len(drift_samples) < 5:
                                drift_samples.append({"scn": cur, "diffs": d[:4]})
                        if len(samples) < 2 and checked % 97 == 1:
                            samples.append({"scenario": byid[cur], "trace": evs})
        # 4. verdicts: confirm by re-execution, classify against the known findings
        known = vlib.load_known()
        reported, known_hit, unconfirmed = [], {}, 0
        seen_scn = set()
        for v in mine:
            if v["scn"] in seen_scn:
                continue
            seen_scn.add(v["scn"])
            scn = byid.get(v["scn"])
            if scn is None:
                continue
            sig = dict(scn.get("meta", {}) or {}, property=prop, kind=v["kind"])
            k = next((e for e in known if e.get("status") == "known" and e.get("property") == prop and vlib.sig_matches(e, sig)), None)
            if k is not None:
                known_hit.setdefault(k["id"], k)
                continue
            if len(reported) >= 3:
                continue
            group = [scn] if not scn.get("grp") else [s for s in scenarios if s.get("grp") == scn["grp"]]
            t2, _ = vlib.run_harness(binary, group, work, seed, nproc=1, tag="confirm", test=plan.test)
            v2, _, _ = vlib.validate_traces(work, t2, nproc=1, module=plan.trace_module)
            if any(prop in x["props"] for x in v2):
                path = vlib.write_replay(prop, scn, seed, vlib.scenario_trace(t2[0], scn["id"]),
                                         "monitor %s violated at trace line %d (%s)" % (prop, v["line"], v["kind"]))
                reported.append(path)
            else:
                unconfirmed += 1
        nontriv = nt.get(prop, 0)
        cov = {"states": states, "transitions": transitions, "traces_validated_against_impl": len(scenarios),
               "evaluations": len(scenarios), "distinct_nontrivial": nontriv, "rule": plan.rule,
               "samples": samples or [{"scenario": scenarios[0]}], "exhaustive": False,
               "model_checks": mcinfo, "behaviours_from_model": nmodel, "behaviours_random": len(scenarios) - nmodel,
               "trace_events": events, "drift": {"compared": checked, "differing": drift, "samples": drift_samples},
               "violating_states_this_property": len(mine), "monitors_of_other_properties_red": others,
               "unconfirmed": unconfirmed, "crashes": sum(i["crashes"] for i in infos)}
        vlib.write_evidence(prop, tier, seed, plan.level, cov, time.time() - t0, len(reported), plan.assumptions)
        for k in known_hit.values():
            print("KNOWN-FINDING: property=%s %s" % (prop, k["what"]))
        if others:
            log("[note] monitors of other properties red in these traces: %s" % ",".join(others))
        if reported:
            for p in reported:
                print("VIOLATION property=%s replay=%s" % (prop, p))
            return 1
        if unconfirmed and not reported:
            raise Inconclusive("%d violating states did not reproduce on re-execution" % unconfirmed)
        if nontriv == 0:
            raise Inconclusive("vacuous run: no recorded state made an antecedent of %s true" % prop)
        print("OK property=%s tier=%s behaviours=%d nontrivial=%d drift=%d/%d wall=%.0fs" % (
            prop, tier, len(scenarios), nontriv, drift, checked, time.time() - t0))
        return 0
    finally:
        work.close()


def replay(prop, path):
    r = json.load(open(path))
    work = vlib.Work(prop + "-replay")
    try:
        binary = vlib.build_harness(work, race=PLANS[prop].race)
        traces, _ = vlib.run_harness(binary, [r["scenario"]], work, r["seed"], nproc=1, test=PLANS[prop].test)
        viol, _, _ = vlib.validate_traces(work, traces, nproc=1, module=PLANS[prop].trace_module)
        for ev in vlib.scenario_trace(traces[0], r["scenario"]["id"]):
            print(json.dumps(ev))
        if any(prop in v["props"] for v in viol):
            print("VIOLATION property=%s replay=%s" % (prop, path))
            return 1
        print("OK: the replayed behaviour satisfies %s on this tree" % prop)
        return 0
    finally:
        work.close()


def selftest(args, seed):
    import selftest as st
    return st.run(args, seed)
