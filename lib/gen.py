"""Seeded random behaviours that widen the value domain around the model's
abstract cases (arbitrary integers, huge and invalid numbers, longer histories).
The monitors are integer formulas evaluated by TLC and do not care how the
numbers were chosen."""
import random

NONE, INVALID, NOARG, CAP = -1, -2, -3, 1000000000


def rq(**kw):
    r = {"u": 0, "m": "GET", "range": 0, "ma": NONE, "mf": NONE, "ms": NONE, "sie": NONE, "fl": [],
         "sel": [0, 0, 0, 0], "inm": 0, "ims": 0, "pragma": 0, "ugap": 0}
    r.update(kw)
    return r


def ans(**kw):
    a = {"k": "full", "st": 200, "ccp": 0, "ma": NONE, "fl": [], "swr": NONE, "sie": NONE, "ncf": 0, "nodate": 0,
         "dsk": 0, "ex": NONE, "exneg": 0, "lm": NONE, "age": NONE, "etag": 0, "vary": [], "vs": 0, "lat": 0, "hop": 0,
         "loc1": 0, "locso": 0, "cloc1": 0, "clocso": 0, "upd": 0, "body": 0, "fr": 0}
    a.update(kw)
    return a


def pick_num(r, small=60):
    c = r.random()
    if c < 0.08:
        return CAP
    if c < 0.14:
        return INVALID
    if c < 0.3:
        return r.randrange(0, 4)
    if c < 0.9:
        return r.randrange(0, small)
    return r.randrange(0, 900000000)


def opt(r, p, f):
    return f() if r.random() < p else NONE


def rand_stored(r):
    fl = [f for f in ("no-cache", "must-revalidate", "immutable", "public", "private", "no-store", "must-understand")
          if r.random() < (0.12 if f in ("no-store", "must-understand") else 0.2)]
    ccp = 1 if (fl or r.random() < 0.7) else 0
    a = ans(ccp=ccp, fl=fl if ccp else [],
            ma=opt(r, 0.6, lambda: pick_num(r)) if ccp else NONE,
            swr=opt(r, 0.3, lambda: pick_num(r)) if ccp else NONE,
            sie=opt(r, 0.3, lambda: pick_num(r)) if ccp else NONE,
            ncf=1 if ("no-cache" in fl and r.random() < 0.4) else 0,
            nodate=1 if r.random() < 0.15 else 0, dsk=r.choice([0, 0, 0, 1, 5, -3, 50, -50, 100000]),
            age=opt(r, 0.35, lambda: pick_num(r)), etag=r.choice([0, 1, 1]), lat=r.choice([0, 0, 0, 1, 3, 30]),
            st=r.choice([200, 200, 200, 203, 301, 404, 410, 302, 500, 204, 308]))
    e = r.random()
    if e < 0.25:
        a["ex"] = r.randrange(0, 80)
        a["exneg"] = 1 if r.random() < 0.25 else 0
    elif e < 0.32:
        a["ex"] = INVALID
    elif e < 0.36:
        a["ex"] = CAP
    if r.random() < 0.5:
        a["lm"] = r.choice([0, 5, 15, 16, 99, 100, 101, 1000, 36000, 300000000])
    return a


def rand_probe(r):
    fl = [f for f in ("no-cache", "only-if-cached", "no-store") if r.random() < 0.15]
    ms = NONE
    c = r.random()
    if c < 0.12:
        ms = NOARG
    elif c < 0.3:
        ms = pick_num(r)
    return rq(fl=fl, ma=opt(r, 0.3, lambda: pick_num(r)), mf=opt(r, 0.2, lambda: pick_num(r)), ms=ms,
              sie=opt(r, 0.2, lambda: pick_num(r)))


def rand_validation(r, stored):
    c = r.random()
    cond = stored["etag"] > 0 or stored["lm"] != NONE
    if c < 0.35 and cond:
        return ans(k="304", st=304, ccp=1 if r.random() < 0.7 else 0, ma=pick_num(r), etag=stored["etag"],
                   upd=1, age=opt(r, 0.2, lambda: pick_num(r)), nodate=1 if r.random() < 0.2 else 0)
    if c < 0.6:
        return rand_stored(r)
    if c < 0.75:
        return ans(k="err")
    return ans(st=r.choice([500, 502, 503, 504, 404, 400, 501, 429]), ccp=1 if r.random() < 0.3 else 0,
               sie=opt(r, 0.5, lambda: pick_num(r)))


def rand_tick(r):
    c = r.random()
    if c < 0.5:
        return r.randrange(0, 40)
    if c < 0.85:
        return r.randrange(0, 400)
    if c < 0.95:
        return r.randrange(0, 100000000)
    return CAP


def random_decide(tier, seed, n=None):
    """store - tick - probe - tick - probe histories with arbitrary numbers"""
    r = random.Random(seed * 7919 + 17)
    n = n or (1500 if tier == "quick" else 60000)
    out = []
    for i in range(n):
        st = rand_stored(r)
        steps = [{"op": "req", "rq": rq(), "ans": [st]}]
        total = 0
        for _ in range(r.choice([1, 2, 2, 3])):
            d = rand_tick(r)
            if total + d > 900000000 and d != CAP:
                d = 5
            if d == CAP and total > 0:
                d = 7
            total += d
            steps.append({"op": "tick", "d": d})
            steps.append({"op": "req", "rq": rand_probe(r), "ans": [rand_validation(r, st), rand_validation(r, st)]})
            if d == CAP:
                break
        out.append({"id": "rnd/%06d" % i, "backend": "fs" if i % 16 == 0 else ("fsenc" if i % 16 == 8 else "mem"),
                    "opt": {}, "steps": steps, "grp": "", "spv": 0})
    return out
