"""Seeded random behaviours that widen the value domain around the model's
abstract cases (arbitrary integers, huge and invalid numbers, longer histories).
The monitors are integer formulas evaluated by TLC and do not care how the
numbers were chosen."""
import hashlib
import json
import random

NONE, INVALID, NOARG, CAP = -1, -2, -3, 1000000000


def rq(**kw):
    r = {"u": 0, "m": "GET", "range": 0, "ma": NONE, "mf": NONE, "ms": NONE, "sie": NONE, "fl": [],
         "sel": [0, 0, 0, 0], "inm": 0, "ims": 0, "pragma": 0, "ugap": 0}
    r.update(kw)
    return r


def ans(**kw):
    a = {"k": "full", "st": 200, "ccp": 0, "ma": NONE, "fl": [], "swr": NONE, "sie": NONE, "ncf": 0, "nodate": 0,
         "dsk": 0, "ex": NONE, "exneg": 0, "lm": NONE, "age": NONE, "etag": 0, "vary": [], "vs": 0, "lat": 0, "hop": 0,
         "loc1": 0, "locso": 0, "cloc1": 0, "clocso": 0, "upd": 0, "body": 0, "fr": 0}
    a.update(kw)
    return a


def pick_num(r, small=60):
    c = r.random()
    if c < 0.08:
        return CAP
    if c < 0.14:
        return INVALID
    if c < 0.3:
        return r.randrange(0, 4)
    if c < 0.9:
        return r.randrange(0, small)
    return r.randrange(0, 900000000)


def opt(r, p, f):
    return f() if r.random() < p else NONE


def rand_stored(r):
    fl = [f for f in ("no-cache", "must-revalidate", "immutable", "public", "private", "no-store", "must-understand")
          if r.random() < (0.12 if f in ("no-store", "must-understand") else 0.2)]
    ccp = 1 if (fl or r.random() < 0.7) else 0
    a = ans(ccp=ccp, fl=fl if ccp else [],
            ma=opt(r, 0.6, lambda: pick_num(r)) if ccp else NONE,
            swr=opt(r, 0.3, lambda: pick_num(r)) if ccp else NONE,
            sie=opt(r, 0.3, lambda: pick_num(r)) if ccp else NONE,
            ncf=1 if ("no-cache" in fl and r.random() < 0.4) else 0,
            nodate=1 if r.random() < 0.15 else 0, dsk=r.choice([0, 0, 0, 1, 5, -3, 50, -50, 100000]),
            age=opt(r, 0.35, lambda: pick_num(r)), etag=r.choice([0, 1, 1]), lat=r.choice([0, 0, 0, 1, 3, 30]),
            st=r.choice([200, 200, 200, 203, 301, 404, 410, 302, 500, 204, 308]))
    e = r.random()
    if e < 0.25:
        a["ex"] = r.randrange(0, 80)
        a["exneg"] = 1 if r.random() < 0.25 else 0
    elif e < 0.32:
        a["ex"] = INVALID
    elif e < 0.36:
        a["ex"] = CAP
    if r.random() < 0.5:
        a["lm"] = r.choice([0, 5, 15, 16, 99, 100, 101, 1000, 36000, 300000000])
    return a


def rand_probe(r):
    fl = [f for f in ("no-cache", "only-if-cached", "no-store") if r.random() < 0.15]
    ms = NONE
    c = r.random()
    if c < 0.12:
        ms = NOARG
    elif c < 0.3:
        ms = pick_num(r)
    return rq(fl=fl, ma=opt(r, 0.3, lambda: pick_num(r)), mf=opt(r, 0.2, lambda: pick_num(r)), ms=ms,
              sie=opt(r, 0.2, lambda: pick_num(r)))


def rand_validation(r, stored):
    c = r.random()
    cond = stored["etag"] > 0 or stored["lm"] != NONE
    if c < 0.35 and cond:
        return ans(k="304", st=304, ccp=1 if r.random() < 0.7 else 0, ma=pick_num(r), etag=stored["etag"],
                   upd=1, age=opt(r, 0.2, lambda: pick_num(r)), nodate=1 if r.random() < 0.2 else 0)
    if c < 0.6:
        return rand_stored(r)
    if c < 0.75:
        return ans(k="err")
    return ans(st=r.choice([500, 502, 503, 504, 404, 400, 501, 429]), ccp=1 if r.random() < 0.3 else 0,
               sie=opt(r, 0.5, lambda: pick_num(r)))


def rand_tick(r):
    c = r.random()
    if c < 0.5:
        return r.randrange(0, 40)
    if c < 0.85:
        return r.randrange(0, 400)
    if c < 0.95:
        return r.randrange(0, 100000000)
    return CAP


def random_decide(tier, seed, n=None):
    """store - tick - probe - tick - probe histories with arbitrary numbers"""
    r = random.Random(seed * 7919 + 17)
    n = n or (1500 if tier == "quick" else 60000)
    out = []
    for i in range(n):
        st = rand_stored(r)
        steps = [{"op": "req", "rq": rq(), "ans": [st]}]
        total = 0
        for _ in range(r.choice([1, 2, 2, 3])):
            d = rand_tick(r)
            if total + d > 900000000 and d != CAP:
                d = 5
            if d == CAP and total > 0:
                d = 7
            total += d
            steps.append({"op": "tick", "d": d})
            probe = rand_probe(r)
            if r.random() < 0.08:  # a caller that writes its header fields into the map under lower-case keys
                probe["rawkeys"] = r.choice([2, 3])   # (3: under the canonical key and a lower-case one at once)
            if r.random() < 0.06:  # the same directives on a request the cache never answers from its store
                if r.random() < 0.5:
                    probe["range"] = 1
                else:
                    probe["m"] = r.choice(METHODS)
            steps.append({"op": "req", "rq": probe, "ans": [rand_validation(r, st), rand_validation(r, st)]})
            if d == CAP:
                break
        if i % 23 == 5:  # the same history for a URI of several thousand bytes
            long_url = "http://res0.test/v/item?q=" + "x" * r.choice([2000, 3900, 4100, 6000, 70000])
            for st_ in steps:
                if st_.get("op") == "req":
                    st_["rq"]["url"] = long_url
        out.append({"id": "rnd/%06d" % i, "backend": "fs" if i % 16 == 0 else ("fsenc" if i % 16 == 8 else "mem"),
                    "opt": {"tz": r.choice([-5, 2])} if i % 11 == 4 else {}, "steps": steps, "grp": "", "spv": 0})
    return out + ancient_dates(tier) + lifetime_after_304(tier)


def ancient_dates(tier):
    """an origin whose clock is centuries off (dsk = CAP: the harness writes a Date of the year 1066, 1583 or 1700): the age
    is beyond anything a duration can hold and has to saturate, whatever the lifetime comes from"""
    out = []
    i = 0
    for life in ({"ma": 60}, {"ma": 3600}, {"ex": 90}, {"lm": 1000}, {"ma": 60, "age": 5}):
        for st in (200, 404):
            for d1, d2 in ((0, 1), (1, 5), (3, 100)):
                a = ans(ccp=1 if "ma" in life else 0, etag=1, dsk=CAP, st=st, **life)
                again = ans(k="304", st=304, ccp=1, ma=60, etag=1, upd=1)
                steps = [{"op": "req", "rq": rq(), "ans": [a]}, {"op": "tick", "d": d1},
                         {"op": "req", "rq": rq(), "ans": [again, ans(ccp=1, ma=60, etag=2)]}, {"op": "tick", "d": d2},
                         {"op": "req", "rq": rq(), "ans": [again, ans(ccp=1, ma=60, etag=2)]}]
                out.append({"id": "ancient/%03d" % i, "backend": "fs" if i % 5 == 0 else "mem", "opt": {}, "steps": steps, "grp": "", "spv": 0})
                i += 1
    return out


def lifetime_after_304(tier):
    """what gives a stored response its lifetime after a 304 has replaced its Cache-Control: a stored response of a status
    that allows heuristics or not, with an old Last-Modified, freshened by a 304 whose Cache-Control carries no lifetime
    (none at all, private, public, must-revalidate) or a short one; probed inside and outside ten per cent of its age"""
    out = []
    i = 0
    for st in (200, 203, 302, 307, 404, 500, 308):
        for cc in ({"ccp": 0}, {"ccp": 1, "fl": ["private"]}, {"ccp": 1, "fl": ["public"]}, {"ccp": 1, "fl": ["must-revalidate"]}, {"ccp": 1, "ma": 5}):
            for lm in (100000, 40):
                stored = ans(st=st, ccp=1, ma=3, etag=1, lm=lm)
                a304 = ans(k="304", st=304, etag=1, upd=1, **cc)
                later = [ans(k="304", st=304, ccp=1, ma=3, etag=1), ans(st=st, ccp=1, ma=3, etag=2)]
                steps = [{"op": "req", "rq": rq(), "ans": [stored]}, {"op": "tick", "d": 5},
                         {"op": "req", "rq": rq(), "ans": [a304, ans(st=st, ccp=1, ma=3, etag=2)]}, {"op": "tick", "d": 2},
                         {"op": "req", "rq": rq(), "ans": later}, {"op": "tick", "d": 20},
                         {"op": "req", "rq": rq(), "ans": later}]
                out.append({"id": "life304/%03d" % i, "backend": "fs" if i % 6 == 0 else "mem", "opt": {}, "steps": steps, "grp": "", "spv": 0})
                i += 1
    return out


# (values 4 and 5 of X-A are two different byte strings that are not UTF-8)
SELS = [[0, 0, 0, 0], [0, 0, 1, 0], [0, 0, 2, 0], [0, 0, 1, 1], [0, 0, 1, 2], [1, 0, 1, 0], [2, 1, 0, 0], [0, 0, 3, 0], [0, 0, 2, 3],
        [0, 0, 4, 0], [0, 0, 5, 0], [0, 0, 4, 2], [0, 0, 6, 0]]   # (value 6 of X-A is two field lines, "1" and "2")
VARYS = [([], 0), ([2], 0), ([2, 3], 0), ([3], 0), ([3, 2], 0), ([0], 0), ([0, 1, 2], 0), ([], 1)]


def rand_vary_ans(r, short=True):
    v, vs = r.choice(VARYS)
    return ans(ccp=1, ma=r.choice([0, 3, 5, 100, 100, 1000]) if short else 100, vary=v, vs=vs, etag=r.choice([0, 1, 2, 7, 8]),
               swr=r.choice([NONE, NONE, 20]), lm=r.choice([NONE, 50]), sp=r.randrange(0, 2), vsp=r.choice([0, 0, 1, 2, 3]))


def random_vary(tier, seed, n=None):
    """random histories over one or two URIs with many selecting-header combinations and changing Vary"""
    r = random.Random(seed * 104729 + 3)
    n = n or (400 if tier == "quick" else 20000)
    out = []
    for i in range(n):
        steps = []
        total = 0
        for _ in range(r.randrange(3, 9)):
            req = rq(u=r.choice([0, 0, 0, 1]), sel=list(r.choice(SELS)), selsp=r.randrange(0, 3), usp=r.randrange(0, 8),
                     fl=["no-cache"] if r.random() < 0.1 else [],
                     rawkeys=(1 if i % 5 == 2 else 2 if i % 5 == 3 else 0))   # a caller that writes to the header map directly, with lower-case keys
            a1 = rand_vary_ans(r)
            a2 = rand_vary_ans(r)
            if r.random() < 0.35:
                a1 = ans(k="304", st=304, ccp=1, ma=r.choice([5, 50]), etag=1, upd=1)
            steps.append({"op": "req", "rq": req, "ans": [a1, a2]})
            d = r.choice([0, 0, 1, 4, 6, 30])
            total += d
            steps.append({"op": "tick", "d": d})
        out.append({"id": "rndvary/%06d" % i, "backend": "fs" if i % 10 == 0 else ("fsenc" if i % 10 == 5 else "mem"),
                    "opt": {}, "steps": steps, "grp": "", "spv": 0})
    return out + refresh_cycles(tier) + reused_requests(tier) + unusual_values(tier) + store_during_bg(tier)


def store_during_bg(tier):
    """while the background validation of a stale-while-revalidate serve is in flight, another variant of the resource (or
    the resource of another URI) is stored by an ordinary miss; when the background answer has been written back, every
    variant stored by then is still there"""
    out = []
    i = 0
    for bgk in ("304", "full"):
        for lat in (2, 4):
            for other in ((0, 2), (0, 3), (1, 1)):   # (URI, selecting value) of the request in between
                for nbetween in (1, 2):
                    bg = ans(k="304", st=304, ccp=1, ma=100, etag=1, lat=lat) if bgk == "304" else ans(ccp=1, ma=100, etag=4, vary=[2], lat=lat)
                    steps = [{"op": "req", "rq": rq(sel=[0, 0, 1, 0]), "ans": [ans(ccp=1, ma=3, swr=60, etag=1, vary=[2])]}, {"op": "tick", "d": 5},
                             {"op": "req", "rq": rq(sel=[0, 0, 1, 0]), "ans": [bg]}, {"op": "tick", "d": 1}]
                    for j in range(nbetween):
                        steps += [{"op": "req", "rq": rq(u=other[0], sel=[0, 0, other[1] + j, 0]), "ans": [ans(ccp=1, ma=1000, etag=2 + j, vary=[2])]}]
                    steps += [{"op": "tick", "d": lat + 1}]
                    for j in range(nbetween):
                        steps += [{"op": "req", "rq": rq(u=other[0], sel=[0, 0, other[1] + j, 0]), "ans": [ans(ccp=1, ma=1000, etag=7, vary=[2])]}]
                    steps += [{"op": "req", "rq": rq(sel=[0, 0, 1, 0]), "ans": [ans(ccp=1, ma=1000, etag=7, vary=[2])]}]
                    out.append({"id": "storebg/%03d" % i, "backend": "fs" if i % 3 == 0 else "mem", "opt": {}, "steps": steps, "grp": "", "spv": 0})
                    i += 1
    return out


def unusual_values(tier):
    """every kind of selecting value (two field lines, bytes that are not UTF-8, empty, lower-case map keys) stored, requested
    again (owed from the store while fresh), and crossed with its nearest neighbours (never each other's response)"""
    out = []
    i = 0
    for v in ([2], [2, 3]):
        for a_, b_ in ((6, 1), (1, 6), (6, 2), (4, 5), (5, 4), (3, 0), (4, 1)):
            for raw in (0, 1):
                fresh = ans(ccp=1, ma=1000, etag=1, vary=v)
                steps = []
                for cls in (a_, a_, b_, a_, b_):
                    steps += [{"op": "req", "rq": rq(sel=[0, 0, cls, 0], rawkeys=raw), "ans": [fresh]}, {"op": "tick", "d": 1}]
                out.append({"id": "unusual/%03d" % i, "backend": "fs" if i % 4 == 0 else "mem", "opt": {}, "steps": steps, "grp": "", "spv": 0})
                i += 1
    return out


def reused_requests(tier):
    """a caller that reuses its request object: once the response is back it changes the selecting header (or the URL) for its
    next use, while the cache's background revalidation of the previous exchange may still be running"""
    out = []
    i = 0
    for et, lm in ((1, NONE), (0, NONE), (0, 40)):
        for lat in (0, 2):
            for bgk in ("full", "304"):
                if bgk == "304" and et == 0 and lm == NONE:
                    continue
                for reuse in (2, 11):
                    stored = ans(ccp=1, ma=5, swr=1000, etag=et, lm=lm, vary=[2])
                    bg = ans(k="304", st=304, ccp=1, ma=50, etag=et, lat=lat) if bgk == "304" \
                        else ans(ccp=1, ma=50, swr=1000, etag=et, lm=lm, vary=[2], lat=lat)
                    steps = [{"op": "req", "rq": rq(sel=[0, 0, 1, 0]), "ans": [stored]}, {"op": "tick", "d": 9},
                             {"op": "req", "rq": rq(sel=[0, 0, 1, 0]), "ans": [bg], "reuse": reuse}, {"op": "tick", "d": lat + 1},
                             {"op": "req", "rq": rq(sel=[0, 0, 2, 0]), "ans": [ans(ccp=1, ma=50, etag=5, vary=[2])]}, {"op": "tick", "d": 1},
                             {"op": "req", "rq": rq(sel=[0, 0, 1, 0]), "ans": [ans(ccp=1, ma=50, etag=6, vary=[2])]}]
                    out.append({"id": "reuse/%02d" % i, "backend": "mem", "opt": {}, "steps": steps, "grp": "", "spv": 0})
                    i += 1
    return out


def refresh_cycles(tier):
    """two or three variants of one resource; one of them expires and is refreshed again and again (in the foreground or
    under stale-while-revalidate, by 304 or by a new representation) while the others stay fresh: they must still be served
    from the store afterwards, and so must the refreshed one"""
    out = []
    i = 0
    for swr in (NONE, 1000):
        for how in ("304", "full", "mixed"):
            for first in (1, 2):        # which variant is stored first
                for cycles in (2, 3):
                    for nvar in (2, 3):
                        order = [first] + [v for v in (1, 2, 3)[:nvar] if v != first]
                        # the validator of the variant that is refreshed: a strong entity-tag, a weak one, one that is not
                        # well-formed, or Last-Modified alone - each is what the conditional request is built from
                        et, lm = [(1, NONE), (8, NONE), (7, NONE), (0, 50)][i % 4]
                        steps = []
                        for v in order:
                            steps += [{"op": "req", "rq": rq(sel=[0, 0, v, 0]),
                                       "ans": [ans(ccp=1, ma=5 if v == 1 else 100000, swr=swr, etag=et if v == 1 else v, lm=lm if v == 1 else NONE, vary=[2])]},
                                      {"op": "tick", "d": 1}]
                        for c in range(cycles):
                            k = how if how != "mixed" else ("304" if c % 2 == 0 else "full")
                            a = ans(k="304", st=304, ccp=1, ma=5, swr=swr, etag=et) if k == "304" else ans(ccp=1, ma=5, swr=swr, etag=et, lm=lm, vary=[2])
                            steps += [{"op": "tick", "d": 9}, {"op": "req", "rq": rq(sel=[0, 0, 1, 0]), "ans": [a, ans(ccp=1, ma=5, swr=swr, etag=et, lm=lm, vary=[2])]},
                                      {"op": "tick", "d": 1}]
                        for v in (2, 3)[:nvar - 1] + (1,):
                            steps += [{"op": "req", "rq": rq(sel=[0, 0, v, 0]), "ans": [ans(ccp=1, ma=100000, etag=7, vary=[2])]}]
                        out.append({"id": "refresh/%03d" % i, "backend": "fs" if i % 5 == 0 else "mem", "opt": {}, "steps": steps, "grp": "", "spv": 0})
                        i += 1
    return out


METHODS = ["POST", "PUT", "DELETE", "PATCH", "PROPPATCH", "MKCOL", "COPY", "LOCK", "X-UNKNOWN", "FOO", "HEAD", "OPTIONS", "TRACE"]


def random_inval(tier, seed, n=None):
    """GETs on three resources (two share an origin) mixed with unsafe requests of any method, status and Location"""
    r = random.Random(seed * 15485863 + 5)
    n = n or (500 if tier == "quick" else 20000)
    out = []
    for i in range(n):
        # three resources, two of which share an origin; the third lives on another host - or on the same host under
        # another scheme and / or port
        us = [[0, 1, 10], [0, 1, 10], [30, 31, 40], [20, 21, 50], [0, 1, 20], [40, 41, 30]][i % 6]
        steps = []
        for _ in range(r.randrange(4, 10)):
            u = r.choice(us)
            if r.random() < 0.3:
                m = r.choice(METHODS)
                loc = r.choice([0, 0, us[0] + 1, us[1] + 1, us[2] + 1])
                cloc = r.choice([0, 0, 0, us[0] + 1, us[1] + 1, us[2] + 1])
                so = lambda c: 1 if c and (c - 1) // 10 == u // 10 else 0
                a = ans(st=r.choice([200, 201, 202, 204, 205, 226, 299, 300, 301, 302, 303, 307, 308, 399, 400, 404, 500]), ccp=0, etag=0, loc1=loc, locso=so(loc),
                        cloc1=cloc, clocso=so(cloc), locf=r.choice([0, 1, 2, 3, 4]) if so(loc) else 0)
                if a["locf"] == 1 and cloc and not so(cloc):
                    a["cloc1"], a["clocso"] = 0, 0
                steps.append({"op": "req", "rq": rq(u=u, m=m, usp=r.randrange(0, 8)), "ans": [a]})
            else:
                # some stored responses allow stale-while-revalidate and their background validation is slow, so that
                # an unsafe request can arrive while it is in flight
                first = ans(ccp=1, ma=r.choice([100, 100, 3]), etag=1, vary=r.choice([[], [2]]), swr=r.choice([NONE, 60]))
                slow304 = ans(k="304", st=304, ccp=1, ma=100, etag=1, lat=r.choice([0, 3, 3]))
                steps.append({"op": "req", "rq": rq(u=u, sel=list(r.choice(SELS[:4])), usp=r.randrange(0, 8)),
                              "ans": [r.choice([first, slow304]), ans(ccp=1, ma=100, etag=2)]})
            steps.append({"op": "tick", "d": r.choice([0, 1, 1, 5])})
        out.append({"id": "rndinv/%06d" % i, "backend": "fs" if i % 10 == 0 else "mem", "opt": {}, "steps": steps, "grp": "", "spv": 0})
    return out + inval_during_bg(tier) + inval_dangling(tier) + inval_named(tier)


def inval_during_bg(tier):
    """an unsafe request arrives while the background revalidation of a stale-while-revalidate serve is in flight"""
    out = []
    i = 0
    for m in (METHODS[:9] if tier == "thorough" else ["POST", "DELETE", "PROPPATCH", "X-UNKNOWN"]):
        for lat in (2, 4):
            for bgk in ("304", "full"):
                bg = ans(k="304", st=304, ccp=1, ma=100, etag=1, lat=lat) if bgk == "304" else ans(ccp=1, ma=100, etag=2, lat=lat)
                steps = [{"op": "req", "rq": rq(u=0), "ans": [ans(ccp=1, ma=3, swr=60, etag=1)]}, {"op": "tick", "d": 5},
                         {"op": "req", "rq": rq(u=0), "ans": [bg]}, {"op": "tick", "d": 1},
                         {"op": "req", "rq": rq(u=0, m=m), "ans": [ans(st=200, ccp=0, etag=0)]}, {"op": "tick", "d": lat + 1},
                         {"op": "req", "rq": rq(u=0), "ans": [ans(ccp=1, ma=100, etag=3)]}, {"op": "tick", "d": 1},
                         {"op": "req", "rq": rq(u=0), "ans": [ans(ccp=1, ma=100, etag=3)]}]
                out.append({"id": "invbg/%03d" % i, "backend": "fs" if i % 3 == 0 else "mem", "opt": {}, "steps": steps, "grp": "", "spv": 0})
                i += 1
    return out


def inval_named(tier):
    """an unsafe request whose answer names resources in Location / Content-Location: every combination of (target stored or
    not) x (Location: none, stored, not stored, other origin) x (Content-Location: the same choices); every same-origin
    resource that is named and stored has to go, whatever happens to the others"""
    out = []
    i = 0
    stored_a = ans(ccp=1, ma=100, etag=1)
    # URI classes relative to the target t: t+1 and t+2 same origin (t+1 is stored, t+2 never is), o = another origin (stored).
    # Origins (host classes, harness originOf): 0 and 1 two hosts; 2..5 the host of 0 with another scheme and / or port
    for t, o in ((0, 10), (30, 40), (20, 50), (0, 20), (40, 30)):
        for target_stored in (0, 1):
            for loc in (0, t + 2, t + 3, o + 1):
                for cloc in (0, t + 2, t + 3, o + 1):
                    for m in (("POST", "PUT") if tier == "quick" else ("POST", "PUT", "DELETE", "PATCH", "X-UNKNOWN")):
                        if t != 0 and (i % 2 == 1 if tier == "quick" else False):
                            i += 1
                            continue
                        so = lambda c: 1 if c in (t + 2, t + 3) else 0
                        steps = []
                        for u in ([t] if target_stored else []) + [t + 1, o]:
                            steps += [{"op": "req", "rq": rq(u=u), "ans": [stored_a]}, {"op": "tick", "d": 1}]
                        a = ans(st=[201, 200, 307, 308, 302, 204, 226, 399][i % 8], ccp=0, etag=0, loc1=loc, locso=so(loc), cloc1=cloc, clocso=so(cloc),
                                locf=(i % 5) if so(loc) or so(cloc) else 0)
                        steps += [{"op": "req", "rq": rq(u=t, m=m), "ans": [a]}, {"op": "tick", "d": 1}]
                        for u in (t, t + 1, o):
                            steps += [{"op": "req", "rq": rq(u=u), "ans": [ans(ccp=1, ma=100, etag=2)]}]
                        out.append({"id": "invnamed/%04d" % i, "backend": "fs" if i % 4 == 0 else "mem", "opt": {}, "steps": steps, "grp": "", "spv": 0})
                        i += 1
    return out


def inval_dangling(tier):
    """an index that lists an entry which is not there (its body could not be read completely) before other variants,
    then an unsafe request: every entry the index made reachable has to go"""
    out = []
    i = 0
    for m in ("POST", "DELETE", "X-UNKNOWN"):
        for first in (1, 2, 3):
            gets = []
            for a_ in (1, 2, 3):
                a = ans(ccp=1, ma=100, etag=1, vary=[2])
                if a_ == first:
                    a = ans(k="bodyerr", ccp=1, ma=100, etag=1, vary=[2], bodycut=4)
                gets.append({"op": "req", "rq": rq(u=0, sel=[0, 0, a_, 0]), "ans": [a]})
                gets.append({"op": "tick", "d": 1})
            steps = gets + [{"op": "req", "rq": rq(u=0, m=m), "ans": [ans(st=200, ccp=0, etag=0)]}, {"op": "tick", "d": 1},
                            {"op": "req", "rq": rq(u=0, sel=[0, 0, 2, 0]), "ans": [ans(ccp=1, ma=100, etag=2, vary=[2])]},
                            {"op": "req", "rq": rq(u=0, sel=[0, 0, 3, 0]), "ans": [ans(ccp=1, ma=100, etag=2, vary=[2])]}]
            out.append({"id": "invdangling/%02d" % i, "backend": "fs" if i % 2 else "mem", "opt": {}, "steps": steps, "grp": "", "spv": 0})
            i += 1
    return out


def periodic(tier, seed, n=None):
    """a finite request alphabet repeated far beyond the footprint bound (C19); in a third of the histories no time
    passes at all, in another third the origin's Date stands still"""
    r = random.Random(seed * 32452843 + 7)
    n = n or (6 if tier == "quick" else 60)
    rounds = 140 if tier == "quick" else 400
    out = inval_dangling(tier)
    for i in range(n):
        mode = i % 3
        elapsed = 0
        sels = [list(s) for s in r.sample(SELS, 3)]
        varys = r.sample(VARYS, 3)
        if i % 2 == 1:  # a selecting value that is not UTF-8, nominated by the origin
            sels[0] = [0, 0, r.choice([4, 5]), 0]
            if ([2], 0) not in varys:
                varys[1] = ([2], 0)
        if i % 2 == 0 and ([], 1) not in varys:
            varys[0] = ([], 1)
        pattern = []
        for _ in range(r.randrange(3, 6)):
            kind = r.random()
            if kind < 0.12 and not (mode in (1, 2) and i % 2 == 0):  # (an invalidation would reset the index every round)
                pattern.append(("unsafe", r.choice([0, 1]), None))
            else:
                pattern.append(("get", r.choice([0, 0, 1]), r.choice(sels)))
        steps = []
        for _ in range(rounds):
            for kind, u, sel in pattern:
                if kind == "unsafe":
                    steps.append({"op": "req", "rq": rq(u=u, m="POST"), "ans": [ans(st=200, ccp=0, etag=0)]})
                else:
                    v, vs = r.choice(varys)
                    dsk = elapsed if mode == 2 else 0  # mode 2: the Date of every answer is the same instant
                    ma = r.choice([0, 2, 50])
                    if mode in (1, 2) and i % 2 == 0:
                        v, vs, ma = [], 1, 0  # an origin that always says "Vary: *" and nothing is ever fresh
                    a = ans(ccp=1, ma=ma, vary=v, vs=vs, etag=1, swr=r.choice([NONE, 5]), dsk=dsk, vsp=r.choice([0, 2, 2]) if vs == 1 else r.choice([0, 1, 3]))
                    b = ans(k="304", st=304, ccp=1, ma=r.choice([2, 50]), etag=1, dsk=dsk) if r.random() < 0.5 and vs == 0 else a
                    steps.append({"op": "req", "rq": rq(u=u, sel=sel), "ans": [b, a]})
                d = 0 if mode == 1 else r.choice([0, 1, 3])
                elapsed += d
                steps.append({"op": "tick", "d": d})
        out.append({"id": "periodic/%04d" % i, "backend": "fs" if i % 3 == 2 else "mem", "opt": {}, "steps": steps, "grp": "", "spv": 0})
    # an origin that always nominates the same field, and clients whose values for it include byte strings that are not UTF-8
    for j in range(2 if tier == "quick" else 12):
        sels = [[0, 0, 4, 0], [0, 0, r.choice([1, 2]), 0], [0, 0, 5, 0]]
        v = r.choice([[2], [2, 3]])
        steps = []
        for _ in range(rounds):
            for sel in sels:
                ma = r.choice([0, 2, 50])
                a = ans(ccp=1, ma=ma, vary=v, etag=1)
                b = ans(k="304", st=304, ccp=1, ma=r.choice([2, 50]), etag=1) if r.random() < 0.3 else a
                steps.append({"op": "req", "rq": rq(u=j % 2, sel=sel), "ans": [b, a]})
                steps.append({"op": "tick", "d": r.choice([0, 1, 3])})
        out.append({"id": "periodic/nonutf8-%02d" % j, "backend": "fs" if j % 2 else "mem", "opt": {}, "steps": steps, "grp": "", "spv": 0})
    return out


def client_conditionals(tier):
    """the client's own conditional request meets a stored response with or without validators, fresh or stale, and the origin
    answers 304 to it or sends a new representation; a later plain GET must get a full response"""
    out = []
    j = 0
    for et, lm in ((0, NONE), (1, NONE), (0, 100), (1, 100), (7, NONE), (8, NONE)):   # 7: not a well-formed entity-tag, 8: a weak one
        for stale in (0, 1):
            for cond in ({"inm": 9}, {"inm": 1}, {"ims": 50}, {"ims": 100, "inm": 9}, {}):
                for how in ("304", "full"):
                    for nocache in (0, 1):
                        stored = ans(ccp=1, ma=5, etag=et, lm=lm)
                        reply = ans(k="304", st=304, ccp=1, ma=50, etag=cond.get("inm", et) if cond.get("inm") else et) if how == "304" \
                            else ans(ccp=1, ma=50, etag=2)
                        steps = [{"op": "req", "rq": rq(), "ans": [stored]}, {"op": "tick", "d": 9 if stale else 2},
                                 {"op": "req", "rq": rq(fl=["no-cache"] if nocache else [], **cond), "ans": [reply, ans(ccp=1, ma=50, etag=3)]},
                                 {"op": "tick", "d": 1}, {"op": "req", "rq": rq(), "ans": [ans(ccp=1, ma=50, etag=4)]},
                                 {"op": "tick", "d": 100}, {"op": "req", "rq": rq(), "ans": [ans(ccp=1, ma=50, etag=5)]}]
                        out.append({"id": "clientcond/%03d" % j, "backend": "fs" if j % 5 == 0 else "mem", "opt": {}, "steps": steps, "grp": "", "spv": 0})
                        j += 1
    return out


def random_store(tier, seed, n=None):
    """every status 100-599 with random directives; bodies failing at every byte"""
    r = random.Random(seed * 49979687 + 13)
    out = []
    sts = list(range(100, 600)) if tier == "thorough" else r.sample(range(100, 600), 120) + [100, 101, 102, 103, 199, 206, 226, 304, 599]
    i = 0
    for st in sts:
        if st == 304:
            continue
        for _ in range(2 if tier == "quick" else 4):
            fl = [f for f in ("no-store", "public", "must-understand", "private", "no-cache") if r.random() < 0.25]
            a = ans(st=st, ccp=1 if fl or r.random() < 0.5 else 0, fl=fl, ma=r.choice([NONE, 60, 0, INVALID]), ex=r.choice([NONE, NONE, 60, INVALID]),
                    lm=r.choice([NONE, 1000]), etag=r.choice([0, 1]))
            if not a["ccp"]:
                a["ma"] = NONE
            q1 = rq(fl=["no-store"] if r.random() < 0.15 else [], range=1 if r.random() < 0.1 else 0,
                    m=r.choice(["GET"] * 8 + ["HEAD", "POST"]), inm=9 if r.random() < 0.1 else 0)
            steps = [{"op": "req", "rq": q1, "ans": [a]}, {"op": "tick", "d": 1},
                     {"op": "req", "rq": rq(), "ans": [ans(ccp=1, ma=60, etag=2)]}]
            out.append({"id": "rndstore/%05d" % i, "backend": "mem", "opt": {}, "steps": steps, "grp": "", "spv": 0})
            i += 1
    out += client_conditionals(tier)
    # body stream failing at every byte (the default body is 19 bytes long), several framings
    for fr in (0, 1, 2):
        for cut in range(0, 22 if tier == "quick" else 40):
            a = ans(k="bodyerr", ccp=1, ma=60, etag=1, fr=fr, bodycut=cut, body=0 if cut < 22 else 6)
            steps = [{"op": "req", "rq": rq(), "ans": [a]}, {"op": "tick", "d": 1}, {"op": "req", "rq": rq(), "ans": [ans(ccp=1, ma=60, etag=2)]},
                     {"op": "tick", "d": 1}, {"op": "req", "rq": rq(), "ans": [ans(ccp=1, ma=60, etag=2)]}]
            out.append({"id": "bodycut/%d-%03d" % (fr, cut), "backend": "fs" if cut % 2 else "mem", "opt": {}, "steps": steps, "grp": "", "spv": 0})
    return out


def random_bytes(tier, seed, n=None):
    """seeded random bodies and header shapes on every backend; store, hit, revalidate, hit"""
    r = random.Random(seed * 86028121 + 19)
    n = n or (60 if tier == "quick" else 1500)
    out = []
    for i in range(n):
        a = ans(ccp=1, ma=5, etag=1, fr=r.randrange(0, 6), body=r.choice([0, 1, 2, 3, 6, 6, 6, 4]), hop=r.randrange(0, 3), age=r.choice([NONE, 3]),
                st=r.choice([200, 200, 203, 404, 410, 301]), dfmt=r.choice([0, 1, 2]))   # any of the three HTTP-date formats
        a304 = ans(k="304", st=304, ccp=1, ma=50, etag=1, upd=1, hop=r.randrange(0, 3), dfmt=r.choice([0, 0, 1, 2]))
        if i % 2 == 1:
            a["swr"] = 60  # the stale serve happens under stale-while-revalidate; the caller reads the body late
        steps = [{"op": "req", "rq": rq(), "ans": [a]}, {"op": "tick", "d": 2}, {"op": "req", "rq": rq(), "ans": []},
                 {"op": "tick", "d": 9}, {"op": "req", "rq": rq(), "ans": [a304], "latebody": i % 2}, {"op": "tick", "d": 2},
                 {"op": "req", "rq": rq(), "ans": []}]
        out.append({"id": "rndbytes/%05d" % i, "backend": ["mem", "fs", "fsenc"][i % 3], "opt": {}, "steps": steps, "grp": "", "spv": 0})
    # a caller that keeps responses and reads their bodies at the very end, while the same resource is stored again and again
    # (new representations of the same and of other sizes, freshening 304s, other variants)
    for i in range(max(6, n // 5)):
        big = r.choice([4, 4, 6, 0])
        a1 = ans(ccp=1, ma=5, etag=1, body=big, fr=r.choice([0, 0, 1]))
        a2 = ans(ccp=1, ma=5, etag=2, body=big, fr=r.choice([0, 0, 1]))
        a3 = ans(ccp=1, ma=5, etag=3, body=r.choice([big, 6]))
        steps = [{"op": "req", "rq": rq(), "ans": [a1], "latebody": r.choice([0, 2])}, {"op": "tick", "d": 1},
                 {"op": "req", "rq": rq(), "ans": [], "latebody": 2}, {"op": "tick", "d": 1},
                 {"op": "req", "rq": rq(fl=["no-cache"]), "ans": [a2], "latebody": r.choice([0, 2])}, {"op": "tick", "d": 1},
                 {"op": "req", "rq": rq(), "ans": [], "latebody": 2}, {"op": "tick", "d": 9},
                 {"op": "req", "rq": rq(), "ans": [r.choice([a3, ans(k="304", st=304, ccp=1, ma=50, etag=2, upd=1)])], "latebody": 2},
                 {"op": "tick", "d": 1}, {"op": "req", "rq": rq(), "ans": []}]
        out.append({"id": "held/%05d" % i, "backend": ["mem", "mem", "fs", "fsenc"][i % 4], "opt": {}, "steps": steps, "grp": "", "spv": 0})
    return out


def byte_mutations(tier, seed, n=None):
    """a stored index / entry returned with one byte flipped or truncated at every position"""
    out = []
    step = 1 if tier == "thorough" else 5
    a = ans(ccp=1, ma=100, etag=1, vary=[2])
    # (selecting value 1: a plain index; 4: not UTF-8, so the index carries the exact bytes in an extra member)
    for sv, opn, length in ((1, 1, 140), (1, 2, 520), (4, 1, 260)):
        for pos in range(0, length, step if sv == 1 else 1):
            for kind in (("flipat", "truncat") if sv == 1 else ("flipat", "flipat1", "truncat")):
                steps = [{"op": "req", "rq": rq(sel=[0, 0, sv, 0]), "ans": [a]}, {"op": "tick", "d": 1},
                         {"op": "req", "rq": rq(sel=[0, 0, sv, 0]), "ans": [ans(ccp=1, ma=60, etag=2)],
                          "faults": [{"n": opn, "kind": kind, "pos": pos}]},
                         {"op": "tick", "d": 1}, {"op": "req", "rq": rq(sel=[0, 0, sv, 0]), "ans": [ans(ccp=1, ma=60, etag=2)]},
                         {"op": "req", "rq": rq(sel=[0, 0, sv, 0], m="POST"), "ans": [ans(st=200, ccp=0, etag=0)],
                          "faults": [{"n": 1, "kind": kind, "pos": pos}]}]
                out.append({"id": "mut/%d%d-%s-%04d" % (sv, opn, kind, pos), "backend": "mem", "opt": {}, "steps": steps, "grp": "", "spv": 0})
    return out


def concurrent(tier, seed, n=None):
    """rounds of concurrent requests on one transport, with stale-while-revalidate refreshes in flight"""
    r = random.Random(seed * 67867967 + 29)
    n = n or (40 if tier == "quick" else 600)
    out = []
    for i in range(n):
        steps = []
        et = r.choice([1, 1, 0])  # without an ETag the conditional request is built from Last-Modified alone
        stored = ans(ccp=1, ma=r.choice([3, 5]), swr=r.choice([NONE, 30, 30]), etag=et, vary=r.choice([[], [2]]),
                     lm=40 if et == 0 else r.choice([NONE, 40]))
        for u in (0, 1):
            for a_ in (1, 2):
                steps.append({"op": "req", "rq": rq(u=u, sel=[0, 0, a_, 0]), "ans": [stored]})
        for rnd in range(r.randrange(2, 5)):
            steps.append({"op": "tick", "d": r.choice([0, 1, 4, 6])})
            par = []
            for _ in range(r.randrange(4, 12)):
                c = r.random()
                if c < 0.12:
                    par.append({"op": "req", "rq": rq(u=r.choice([0, 1]), m=r.choice(["POST", "DELETE", "X-UNKNOWN"])),
                                "ans": [ans(st=200, ccp=0, etag=0)]})
                elif c < 0.22:
                    # answered by the cache itself (504): nothing is stored for that resource, or the method is never served
                    # from the store; such replies are the caller's own as much as any other
                    par.append({"op": "req", "rq": rq(u=r.choice([2, 2, 0]), m=r.choice(["GET", "GET", "HEAD"]), fl=["only-if-cached"]),
                                "ans": [ans(ccp=1, ma=60, etag=2)]})
                else:
                    lat = r.choice([0, 0, 0, 1, 2])
                    va = ans(k="304", st=304, ccp=1, ma=50, etag=1, upd=1, lat=lat, hop=r.choice([0, 0, 1, 2])) if r.random() < 0.5 \
                        else ans(ccp=1, ma=r.choice([3, 60]), etag=2, swr=30, vary=stored["vary"], lat=lat, hop=r.choice([0, 0, 1, 2]))
                    par.append({"op": "req", "rq": rq(u=r.choice([0, 0, 1]), sel=[0, 0, r.choice([1, 1, 2, 3]), 0],
                                                      fl=["no-cache"] if r.random() < 0.1 else []),
                                "ans": [va, ans(ccp=1, ma=60, etag=2, vary=stored["vary"])]})
            steps.append({"op": "conc", "par": par})
        steps.append({"op": "tick", "d": 2})
        steps.append({"op": "req", "rq": rq(u=0, sel=[0, 0, 1, 0]), "ans": [ans(ccp=1, ma=60, etag=2)]})
        out.append({"id": "conc/%05d" % i, "backend": "fs" if i % 4 == 3 else "mem", "opt": {}, "steps": steps, "grp": "", "spv": 0})
    return out


# ----------------------------------------------------------------------------
# key-value store scenarios (C14, C15, C17)
import base64


def _bytes(r, n, kind):
    if kind == "url":
        s = ("https://example.com/" + "p" * n + "?x=1#12345")[:max(n, 1)]
        return s.encode()
    if kind == "bin":
        return bytes(r.randrange(0, 256) for _ in range(n))
    if kind == "ff":
        return bytes([0xff, 0x00, 0x2f, 0x2e] * (n // 4 + 1))[:n]
    return bytes(r.choice(b"abcxyz/.#%") for _ in range(n))


CHUNKS = [(211, 71, 35), (36, 156, 36), (36, 36, 36), (1, 1, 1), (191, 1, 1), (192, 36, 36), (3, 189, 3), (35, 1, 156), (72, 144, 36), (0, 5, 5),
          (36, 105, 51), (141, 51, 1), (189, 3, 36), (255, 1, 1), (33, 3, 300), (36, 1000, 1000)]
VSIZES = [0, 1, 17, 100, 4096, 70000]


def kv_keys(r, variant):
    a, b, c = CHUNKS[variant % len(CHUNKS)]
    kind = ["txt", "bin", "url", "ff"][(variant // len(CHUNKS)) % 4]
    ka = _bytes(r, a, kind)
    kb = ka + _bytes(r, b, kind)
    kc = kb + _bytes(r, c, kind)
    return [base64.b64encode(k).decode() for k in (ka, kb, kc)]


def kv_kind(variant):
    return ["txt", "bin", "url", "ff"][(variant // len(CHUNKS)) % 4]


def kv_from_rows(rows, tier, seed):
    r = random.Random(seed * 179424673 + 31)
    cap = 1500 if tier == "quick" else 10 ** 9
    if len(rows) > cap:
        rows = r.sample(rows, cap)
    out = []
    for i, row in enumerate(rows):
        be = ["fs", "mem", "fsenc", "fs"][i % 4]
        ops = []
        variant = r.randrange(0, 60)
        for o in row["ops"]:
            o2 = dict(o)
            # the HTTP API carries keys in a URL path and in JSON: only URL-shaped (UTF-8) keys go through it
            if kv_kind(variant) == "url":
                c = r.random()
                if o["op"] == "get" and c < 0.15:
                    o2["op"] = "api_get"
                elif o["op"] == "del" and c < 0.15:
                    o2["op"] = "api_del"
                elif o["op"] == "keys" and c < 0.15:
                    o2["op"] = "api_list"
            ops.append(o2)
        vals = [{"len": r.choice(VSIZES), "seed": r.randrange(1, 10 ** 9)}, {"len": r.choice(VSIZES[1:]), "seed": r.randrange(1, 10 ** 9)}]
        if vals[0]["len"] == vals[1]["len"] and vals[0]["len"] == 0:
            vals[1]["len"] = 3
        out.append({"id": "kv/%06d" % i, "backend": be, "keys": kv_keys(r, variant), "vals": vals, "ops": ops})
    return out


def kv_random(tier, seed, n=None):
    """long random operation sequences over 6 keys forming prefix chains, with reopen between operations"""
    r = random.Random(seed * 198491317 + 37)
    n = n or (150 if tier == "quick" else 5000)
    out = []
    for i in range(n):
        v1, v2 = r.randrange(0, 60), r.randrange(0, 60)
        api = kv_kind(v1) == "url" and kv_kind(v2) == "url"
        k1 = kv_keys(r, v1)
        k2 = kv_keys(r, v2)
        keys = k1 + k2
        if len(set(keys)) < 6:
            keys = list(dict.fromkeys(keys))
        vals = [{"len": r.choice(VSIZES + [1 << 20] if i % 25 == 0 else VSIZES), "seed": r.randrange(1, 10 ** 9)} for _ in range(4)]
        ops = []
        for _ in range(r.randrange(10, 40) if tier == "quick" else r.randrange(20, 100)):
            c = r.random()
            k = r.randrange(0, len(keys))
            if c < 0.35:
                ops.append({"op": "set", "k": k, "v": r.randrange(0, 4)})
            elif c < 0.6:
                ops.append({"op": r.choice(["get", "get", "api_get"]) if api else "get", "k": k})
            elif c < 0.75:
                ops.append({"op": r.choice(["del", "del", "api_del"]) if api else "del", "k": k})
            elif c < 0.9:
                ops.append({"op": r.choice(["keys", "api_list"]) if api else "keys", "p": r.choice([-1, k])})
            else:
                ops.append({"op": "reopen"})
        out.append({"id": "kvrnd/%05d" % i, "backend": ["fs", "fsenc", "mem"][i % 3], "keys": keys, "vals": vals, "ops": ops})
    return out + kv_lengths(tier)


def kv_lengths(tier):
    """one key of every length around the file-name and fragment boundaries; and keys with literal percent escapes
    through the HTTP API"""
    out = []
    top = 470 if tier == "quick" else 1300
    for n in list(range(170, top)) + [1500, 2820, 4096]:
        for be in (("fs",) if n % 2 else ("fsenc",)):
            k1 = ("https://example.com/" + "q" * n)[:n].encode()
            k2 = k1 + b"/x"
            ops = [{"op": "set", "k": 0, "v": 0}, {"op": "set", "k": 1, "v": 1}, {"op": "get", "k": 0}, {"op": "get", "k": 1}, {"op": "keys", "p": -1},
                   {"op": "keys", "p": 0}, {"op": "reopen"}, {"op": "api_get", "k": 0}, {"op": "del", "k": 0}, {"op": "get", "k": 1}, {"op": "keys", "p": -1}]
            out.append({"id": "len/%s-%04d" % (be, n), "backend": be, "keys": [base64.b64encode(k).decode() for k in (k1, k2)],
                        "vals": [{"len": 10, "seed": n}, {"len": 20, "seed": n + 1}], "ops": ops})
    esc = [b"https://example.com/a%2Fb?x=%20", b"https://example.com/a/b?x= ", b"https://example.com/a%252Fb?x=%2520", b"https://example.com/100%25",
           b"https://example.com/100%", b"https://example.com/a%23b", b"https://example.com/a#b"]
    keys = [base64.b64encode(k).decode() for k in esc]
    for be in ("mem", "fs", "fsenc"):
        ops = [{"op": "set", "k": i, "v": i % 3} for i in range(len(esc))]
        ops += [{"op": "api_get", "k": i} for i in range(len(esc))]
        ops += [{"op": "api_del", "k": 0}, {"op": "api_del", "k": 3}] + [{"op": "get", "k": i} for i in range(len(esc))] + [{"op": "api_list", "p": -1}]
        out.append({"id": "esc/%s" % be, "backend": be, "keys": keys, "vals": [{"len": 5, "seed": 1}, {"len": 6, "seed": 2}, {"len": 7, "seed": 3}], "ops": ops})
    return out


def kv_cuts(tier, seed, n=None):
    """a write cut short at every byte (file size limit) or killed at every step / at random instants (C15)"""
    r = random.Random(seed * 217645199 + 41)
    out = []
    keys = [base64.b64encode(b"the-key").decode(), base64.b64encode(b"k" * 200).decode()]
    i = 0
    for be in ("fs", "fsenc"):
        for prev in (False, True):
            vlen = 48 if tier == "quick" else 300
            over = 40  # nonce + tag of the encrypted form
            for cut in list(range(0, vlen + over + 2)) + [4096]:
                vals = [{"len": 33, "seed": 5}, {"len": vlen, "seed": 7 + cut}]
                ops = ([{"op": "set", "k": 0, "v": 0}] if prev else []) + [
                    {"op": "set_cut", "k": 0, "v": 1, "cut": cut}, {"op": "get", "k": 0}, {"op": "keys", "p": -1},
                    {"op": "reopen"}, {"op": "get", "k": 0}, {"op": "set", "k": 0, "v": 0}, {"op": "get", "k": 0}]
                out.append({"id": "cut/%s-%d-%04d" % (be, prev, cut), "backend": be, "keys": keys, "vals": vals, "ops": ops})
            for step in list(range(0, 7)) + [-1] * (6 if tier == "quick" else 60):
                i += 1
                vals = [{"len": 33, "seed": 5}, {"len": 1 << 20 if step == -1 else 5000, "seed": 1000 + i}]
                ops = ([{"op": "set", "k": 1, "v": 0}] if prev else []) + [
                    {"op": "set_kill", "k": 1, "v": 1, "cut": step}, {"op": "get", "k": 1}, {"op": "keys", "p": -1},
                    {"op": "reopen"}, {"op": "get", "k": 1}, {"op": "set", "k": 1, "v": 0}, {"op": "get", "k": 1}, {"op": "keys", "p": -1}]
                out.append({"id": "kill/%s-%d-%d-%d" % (be, prev, step, i), "backend": be, "keys": keys, "vals": vals, "ops": ops})
    # a write that outlasts the store's operation timeout (held at every step of set) while the caller reuses its buffer
    for be in ("fs", "fsenc"):
        for prev in (False, True):
            for point in ("set:begin", "set:created", "set:written", "set:closed"):
                i += 1
                vals = [{"len": 33, "seed": 5}, {"len": 5000, "seed": 2000 + i}]
                ops = ([{"op": "set", "k": 0, "v": 0}] if prev else []) + [
                    {"op": "set_slow", "k": 0, "v": 1, "how": point}, {"op": "get", "k": 0}, {"op": "keys", "p": -1},
                    {"op": "reopen"}, {"op": "get", "k": 0}, {"op": "set", "k": 0, "v": 0}, {"op": "get", "k": 0}]
                out.append({"id": "slow/%s-%d-%s" % (be, prev, point.replace(":", "")), "backend": be, "keys": keys, "vals": vals, "ops": ops})
            for rep in range(3 if tier == "quick" else 12):
                i += 1
                vals = [{"len": 33, "seed": 5}, {"len": 1 << 20, "seed": 3000 + i}]
                ops = ([{"op": "set", "k": 0, "v": 0}] if prev else []) + [
                    {"op": "set_slow", "k": 0, "v": 1, "how": "tiny"}, {"op": "get", "k": 0}, {"op": "keys", "p": -1},
                    {"op": "reopen"}, {"op": "get", "k": 0}, {"op": "set", "k": 0, "v": 0}, {"op": "get", "k": 0}]
                out.append({"id": "slow/%s-%d-tiny%d" % (be, prev, rep), "backend": be, "keys": keys, "vals": vals, "ops": ops})
    return out + kv_stress(tier)


def kv_stress(tier):
    """free-running writers / readers / deleter on one key (schedules below the granularity of the step hooks)"""
    out = []
    key = base64.b64encode(b"stress-key").decode()
    for i, be in enumerate(["fs", "fsenc", "mem"] * (1 if tier == "quick" else 4)):
        for dele in (0, 1):
            vals = [{"len": 200000, "seed": 31 + i}, {"len": 70000, "seed": 37 + i}, {"len": 5, "seed": 41}]
            out.append({"id": "stress/%s-%d-%d" % (be, dele, i), "backend": be, "keys": [key], "vals": vals,
                        "ops": [{"op": "stress", "k": 0, "n": 3, "p": dele, "cut": 250 if tier == "quick" else 1500}, {"op": "set", "k": 0, "v": 2},
                                {"op": "get", "k": 0}]})
            if be != "mem":   # the writers go through two handles on the same directory
                out.append({"id": "stress2/%s-%d-%d" % (be, dele, i), "backend": be, "keys": [key], "vals": vals,
                            "ops": [{"op": "stress", "k": 0, "n": 4, "p": dele, "how": "two", "cut": 250 if tier == "quick" else 1500},
                                    {"op": "set", "k": 0, "v": 2}, {"op": "get", "k": 0}]})
                out.append({"id": "stressm/%s-%d-%d" % (be, dele, i), "backend": be, "keys": [key], "vals": vals,
                            "ops": [{"op": "stress", "k": 0, "n": 4, "p": dele, "how": "mtime", "cut": 250 if tier == "quick" else 1500},
                                    {"op": "set", "k": 0, "v": 2}, {"op": "get", "k": 0}]})
    return out


def enc_from_rows(rows, tier, seed):
    """operation sequences of MC_enc on the encrypted file system backend: damage positions, value sizes and the two
    cache keys are chosen by the seed; the sample keeps every pattern of operation kinds (quick)"""
    r = random.Random(seed * 160481183 + 53)
    cap = 4000 if tier == "quick" else 10 ** 9
    if len(rows) > cap:
        groups = {}
        for row in rows:
            groups.setdefault(tuple((o["op"], o["how"]) for o in row["ops"]), []).append(row)
        keys = sorted(groups)
        per = max(1, cap // len(keys))
        picked = []
        for k in keys:
            g = groups[k]
            r.shuffle(g)
            picked += g[:per]
        if len(picked) > cap:
            picked = r.sample(picked, cap)
        rows = picked
    out = []
    for i, row in enumerate(rows):
        variant = r.randrange(0, 60)
        keys = kv_keys(r, variant)[:2]
        vlen = r.choice([1, 24, 100, 700, 5000])
        vals = [{"len": vlen, "seed": r.randrange(1, 10 ** 9)}, {"len": vlen + r.choice([0, 16]), "seed": r.randrange(1, 10 ** 9)}]
        ops = []
        for o in row["ops"]:
            o2 = dict(o)
            if o["op"] in ("tamper", "tamper_all"):
                o2["pos"] = r.randrange(0, 100000)
            ops.append(o2)
        be = "fs" if row["ops"][0]["op"] == "open_enc" else "fsenc"
        sid = hashlib.sha1(json.dumps(row["ops"], sort_keys=True).encode()).hexdigest()[:12]
        out.append({"id": "enc/" + sid, "backend": be, "keys": keys, "vals": vals, "ops": ops})
    return out


def kv_crypto(tier, seed, n=None):
    """encryption at rest: plaintext search, nonce freshness, tampering at every position, wrong key, ways of enabling (C17)"""
    r = random.Random(seed * 236887691 + 43)
    out = []
    keys = [base64.b64encode(b"key-one").decode(), base64.b64encode(b"key-two").decode()]
    for vlen in ([24, 100] if tier == "quick" else [0, 1, 24, 100, 2000]):
        vals = [{"len": vlen, "seed": 11}, {"len": vlen + 16, "seed": 13}]
        flen = vlen + 12 + 16
        step = 1 if tier == "thorough" or flen < 70 else 3
        for pos in range(0, flen, step):
            for how in ("flip", "trunc"):
                ops = [{"op": "set", "k": 0, "v": 0}, {"op": "set", "k": 1, "v": 1}, {"op": "tamper", "k": 0, "how": how, "pos": pos if how == "flip" else pos},
                       {"op": "get", "k": 0}, {"op": "get", "k": 1}, {"op": "set", "k": 0, "v": 0}, {"op": "get", "k": 0}]
                out.append({"id": "tamper/%d-%s-%04d" % (vlen, how, pos), "backend": "fsenc", "keys": keys, "vals": vals, "ops": ops})
        for how in ("extend", "swap"):
            ops = [{"op": "set", "k": 0, "v": 0}, {"op": "set", "k": 1, "v": 1}, {"op": "tamper", "k": 0, "how": how, "pos": 7, "k2": 1},
                   {"op": "get", "k": 0}, {"op": "get", "k": 1}]
            out.append({"id": "tamper/%d-%s" % (vlen, how), "backend": "fsenc", "keys": keys, "vals": vals, "ops": ops})
        ops = [{"op": "set", "k": 0, "v": 0}, {"op": "set", "k": 0, "v": 0}, {"op": "set", "k": 0, "v": 0}, {"op": "get", "k": 0},
               {"op": "reopen_wrongkey"}, {"op": "get", "k": 0}, {"op": "reopen_plain"}, {"op": "get", "k": 0}, {"op": "reopen"}, {"op": "get", "k": 0}]
        out.append({"id": "keys/%d" % vlen, "backend": "fsenc", "keys": keys, "vals": vals, "ops": ops})
    vals = [{"len": 200, "seed": 17}, {"len": 64, "seed": 19}]
    hows = ["opt_ok", "opt_empty", "opt_badb64", "opt_short", "opt_15bytes", "dsn_ok", "dsn_aesgcm_ok", "dsn_nokey", "dsn_aesgcm_nokey",
            "dsn_badkey", "dsn_shortkey", "dsn_env_ok", "dsn_env_empty", "dsn_env_bad"]
    hows += ["%s_len:%d" % (w, n) for w in ("opt", "dsn", "env") for n in (1, 8, 15, 16, 17, 23, 24, 25, 31, 32, 33, 40, 48, 64)]
    for be in ("fsenc",):
        # (the window in which two overlapping Sets can disturb each other's nonce is a few instructions wide and invisible
        # to the race detector - the random bytes are written by the kernel - so this runs long enough to hit it)
        for rnd in range(6 if tier == "quick" else 40):
            ks = [base64.b64encode(b"ek-%d" % i).decode() for i in range(16)]
            out.append({"id": "encstress/%d" % rnd, "backend": be, "keys": ks, "vals": [{"len": 16 + rnd, "seed": 77}],
                        "ops": [{"op": "encstress", "k": 0, "v": 0, "n": 16, "cut": 500}] + [{"op": "get", "k": i} for i in range(16)]})
    for how in hows:
        out.append({"id": "open/" + how, "backend": "fs", "keys": keys, "vals": vals, "ops": [{"op": "open_enc", "how": how, "v": 0}]})
    return out
