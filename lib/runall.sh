#!/bin/bash
# development aid: run every check once (quick tier) and summarise
cd /verif
tier=${1:-quick}
out=/tmp/runall_$tier.log
: > $out
for p in C01 C02 C03 C04 C05 C06 C07 C08 C09 C10 C11 C12 C13 C14 C15 C16 C17 C18 C19 C20; do
  s=$(date +%s)
  ./check $p --tier $tier > /tmp/chk_$p.log 2>&1
  echo "$p exit=$? $(( $(date +%s) - s ))s $(tail -1 /tmp/chk_$p.log | cut -c1-150)" >> $out
done
