"""Self-tests of the machinery (DESIGN.md 5.5):
  models  - every Defects switch of the specifications must be refuted by TLC through the matching monitor
  reverts - every fix: commit of /repo, reverted in a scratch worktree, must make the matching check print VIOLATION
  seeded  - every kept seeded change under /verif/seeded must be flagged by the check of the property it breaks
"""
import json
import os
import re
import shutil
import subprocess
import sys
import time

import vlib
from vlib import log

MODELS = [
    # module, constants, monitors that must turn red
    ("MC_decide", {"Family": '"V"', "Tier": '"quick"', "Export": "FALSE", "Defects": '{"pinned_order"}'}, {"C02", "C18"}),
    ("MC_decide", {"Family": '"F"', "Tier": '"quick"', "Export": "FALSE", "Defects": '{"maxage0_fallthrough"}'}, {"C01"}),
    ("MC_decide", {"Family": '"V"', "Tier": '"quick"', "Export": "FALSE", "Defects": '{"reqmaxage0_shortcut", "oic_maxage0_served"}'}, {"C11"}),
    ("MC_decide", {"Family": '"V"', "Tier": '"quick"', "Export": "FALSE", "Defects": '{"swr_stored_age"}'}, {"C11"}),
    ("MC_decide", {"Family": '"V"', "Tier": '"quick"', "Export": "FALSE", "Defects": '{"sie_only_from_error_reply"}'}, {"C13"}),
    ("MC_decide", {"Family": '"V"', "Tier": '"quick"', "Export": "FALSE", "Defects": '{"keep_qualified_fields_on_stale_paths"}'}, {"C02"}),
    ("MC_hist", {"Family": '"wb"', "Tier": '"quick"', "Export": "FALSE", "Defects": '{"no304_writeback"}'}, {"C08"}),
    ("MC_hist", {"Family": '"wb"', "Tier": '"quick"', "Export": "FALSE", "Defects": '{"bg_drops_refs"}'}, {"C08"}),
    ("MC_hist", {"Family": '"inval"', "Tier": '"quick"', "Export": "FALSE", "Defects": '{"four_unsafe_methods"}'}, {"C07"}),
    ("MC_hist", {"Family": '"cond"', "Tier": '"quick"', "Export": "FALSE", "Defects": '{"foreign_304_freshens"}'}, {"C02"}),
    ("MC_store", {"Family": '"store"', "Tier": '"quick"', "Export": "FALSE", "Defects": '{"store_304"}'}, {"C06"}),
    ("MC_store", {"Family": '"store"', "Tier": '"quick"', "Export": "FALSE", "Defects": '{"oic_bypass_forwards"}'}, {"C18"}),
    ("MC_conc", {"Tier": '"quick"', "Export": "FALSE", "Defects": '{"bg_shares_response"}'}, {"C16"}),
    ("MC_swr", {"Tier": '"quick"', "Export": "FALSE", "SwrSetting": "0", "Defects": '{"bg_shares_response"}'}, {"C16"}),
    ("MC_swr", {"Tier": '"quick"', "Export": "FALSE", "SwrSetting": "0", "Defects": '{"swr_strips_validators"}'}, {"C20"}),
]
PLAIN = [
    # module, constants, invariant that must be violated
    ("Uri", {"Defects": '{"latin1_unreserved"}', "Tier": '"quick"', "Export": "FALSE"}, "KeyExact", None),
    ("Uri", {"Defects": '{"strip_brackets"}', "Tier": '"quick"', "Export": "FALSE"}, "KeyExact", None),
    ("Uri", {"Defects": '{"rewrite_malformed"}', "Tier": '"quick"', "Export": "FALSE"}, "KeyExact", None),
    ("Uri", {"Defects": '{"dots_before_decode"}', "Tier": '"quick"', "Export": "FALSE"}, "KeyExact", None),
    ("MC_enc", {"Defects": '{"unbound"}', "Depth": "4", "Family": '"kv"', "Export": "FALSE"}, "Judged", None),
    ("MC_enc", {"Defects": '{"static_nonce"}', "Depth": "3", "Family": '"kv"', "Export": "FALSE"}, "FreshNonces", None),
    ("MC_enc", {"Defects": '{"no_auth"}', "Depth": "3", "Family": '"kv"', "Export": "FALSE"}, "Judged", None),
    ("MC_enc", {"Defects": '{"serve_damaged"}', "Depth": "3", "Family": '"rt"', "Export": "FALSE"}, "Judged", None),
    ("MC_enc", {"Defects": '{"lenient_keys"}', "Depth": "1", "Family": '"open"', "Export": "FALSE"}, "Judged", None),
    ("MC_enc", {"Defects": '{"plain_fallback"}', "Depth": "1", "Family": '"open"', "Export": "FALSE"}, "Judged", None),
    ("CcSyntax", {"Defects": '{"case_sensitive"}', "Tier": '"quick"', "Export": "FALSE"}, "ParseExact", None),
    ("CcSyntax", {"Defects": '{"first_line_only"}', "Tier": '"quick"', "Export": "FALSE"}, "ParseExact", None),
    ("CcSyntax", {"Defects": '{"naive_split"}', "Tier": '"quick"', "Export": "FALSE"}, "ParseExact", None),
    ("CcSyntax", {"Defects": '{"last_wins"}', "Tier": '"quick"', "Export": "FALSE"}, "ParseExact", None),
    ("CcSyntax", {"Defects": '{"no_quoted_args"}', "Tier": '"quick"', "Export": "FALSE"}, "CanonicalOK", None),
    ("Footprint", {"Defects": '{"append_dup"}', "URIs": "{0}", "ValsA": "{0, 1}", "ValsB": "{0}", "VarySets": "{0, 4}", "Export": "FALSE", "MaxHist": "0"}, "Bounded", None),
    ("FsLayout", {"DirMarker": "FALSE", "Threshold": "1", "Frag": "2", "MaxLen": "4"}, "NoFailure", "Small"),
    ("FsAtomic", {"Writers": "{1, 2}", "Readers": "{1}", "Deleters": "{1}", "Vals": "{1, 2}", "Chunks": "2", "WriteMode": '"inplace"', "TmpNames": '"unique"', "Touch": '"off"'}, "NoTornRead", None),
    ("FsAtomic", {"Writers": "{1, 2}", "Readers": "{1}", "Deleters": "{1}", "Vals": "{1, 2}", "Chunks": "2", "WriteMode": '"rename"', "TmpNames": '"shared"', "Touch": '"off"'}, "NoTornRead", None),
    ("FsAtomic", {"Writers": "{1, 2}", "Readers": "{1}", "Deleters": "{}", "Vals": "{1, 2}", "Chunks": "2", "WriteMode": '"unlink_rename"', "TmpNames": '"unique"', "Touch": '"off"'}, "NoLostValue", None),
    ("FsAtomic", {"Writers": "{1, 2}", "Readers": "{}", "Deleters": "{}", "Vals": "{1, 2}", "Chunks": "1", "WriteMode": '"unlink_rename"', "TmpNames": '"unique"', "Touch": '"off"'}, "LiveKept", None),
    ("FsAtomic", {"Writers": "{1}", "Readers": "{1}", "Deleters": "{1}", "Vals": "{1}", "Chunks": "1", "WriteMode": '"rename"', "TmpNames": '"unique"', "Touch": '"strict"'}, "NoTornRead", None),
]

# fix commit (by subject prefix) -> properties whose check must flag its reversal
REVERTS = [
    ("a present max-age", ["C01"]), ("delta-seconds and Age values", ["C01", "C12"]), ("Cache-Control directive names", ["C12"]),
    ("no-cache and must-revalidate are checked", ["C02", "C18"]), ("a response served under stale-while-revalidate", ["C11"]),
    ("background revalidation works on its own copy", ["C16", "C08"]), ("a failed origin call during validation", ["C10"]),
    ("stale-if-error is taken from", ["C13"]), ("a 304 freshens the stored entry", ["C08"]),
    ("a 304 received for the client's own", ["C06"]), ("every method that is not registered as safe", ["C07"]),
    ("URL keys keep escaped", ["C03"]), ("a malformed percent escape", ["C03"]), ("the variant hash delimits", ["C04"]), ("null elements in a stored index", ["C10"]),
    ("storing a response replaces every older index reference", ["C19"]), ("fscache writes a value to a temporary file", ["C15"]),
    ("directory levels of fragmented", ["C14"]), ("fscache can store a value under the empty key", ["C14"]),
    ("the TE field is removed", ["C05"]), ("connection-level fields written by the entry serialisation", ["C05"]),
    ("an encrypted fscache entry is bound", ["C17"]), ("only-if-cached with max-age=0", ["C11"]),
    ("fscache lists keys relative", ["C14"]), ("the background revalidation of a stale-while-revalidate serve is built", ["C20"]),
    ("only-if-cached is honoured for requests the cache never answers", ["C18"]), ("index references keep the exact bytes", ["C19"]), ("fscache.Set writes from its own copy", ["C15"]), ("a 304 that answers the client's own conditional request is handed", ["C02"]),
    ("the request header fields nominated by Vary are looked up", ["C04"]), ("all Vary field lines form the list", ["C04"]),
    ("the request's Cache-Control is read whatever", ["C02"]),
    ("all Connection field lines of a response", ["C05"]), ("with update_mtime=on, a Get whose file is deleted", ["C15"]),
    ("X-From-Cache sent by the origin", ["C11"]), ("path segments that read", ["C09"]),
    ("of a Cache-Control directive given more than once", ["C01"]),
    ("the background revalidation of a stale-while-revalidate serve reads the variant index again", ["C08"]),
    ("a header field that sits in the header map under several keys", ["C03", "C18"]),
]


def cfg(consts, inv, constraint=None):
    lines = ["SPECIFICATION Spec", "CONSTANTS"] + ["  %s = %s" % kv for kv in consts.items()] + ["INVARIANT " + inv]
    if constraint:
        lines.append("CONSTRAINT " + constraint)
    lines.append("CHECK_DEADLOCK FALSE")
    return "\n".join(lines) + "\n"


def models():
    work = vlib.Work("selftest-models")
    bad = 0
    try:
        for module, consts, expect in MODELS:
            rc, out, st = vlib.tlc(work, module, cfg(consts, "RecordViolations"), workers=vlib.NCPU, timeout=1200, name="st_" + module)
            seen = set(re.findall(r'"(C\d\d)"', " ".join(ln for ln in out.split("\n") if "MVIOL" in ln)))
            okay = expect <= seen
            bad += 0 if okay else 1
            print("%s %-10s %-45s expected %s red: %s" % ("ok  " if okay else "FAIL", module, consts["Defects"], sorted(expect), sorted(seen)))
        for module, consts, inv, constraint in PLAIN:
            rc, out, st = vlib.tlc(work, module, cfg(consts, inv, constraint), workers=vlib.NCPU, timeout=1200, name="st_" + module)
            okay = "Invariant %s is violated" % inv in out
            bad += 0 if okay else 1
            print("%s %-10s %-45s invariant %s refuted: %s" % ("ok  " if okay else "FAIL", module, json.dumps(consts)[:45], inv, okay))
    finally:
        work.close()
    return bad


def scratch_worktree(name):
    d = "/tmp/verif-wt-" + name
    subprocess.run(["git", "-C", "/repo", "worktree", "remove", "--force", d], capture_output=True)
    shutil.rmtree(d, ignore_errors=True)
    p = subprocess.run(["git", "-C", "/repo", "worktree", "add", "--detach", d, "HEAD"], capture_output=True, text=True)
    if p.returncode != 0:
        raise RuntimeError(p.stderr)
    return d


def drop_worktree(d):
    subprocess.run(["git", "-C", "/repo", "worktree", "remove", "--force", d], capture_output=True)
    shutil.rmtree(d, ignore_errors=True)


def run_check(prop, repo, seed=1):
    env = dict(os.environ, VERIF_REPO=repo, VERIF_SEED=str(seed), VERIF_EVIDENCE_DIR="/tmp/verif-selftest-evidence")
    p = subprocess.run([os.path.join(vlib.VERIF, "check"), prop], env=env, capture_output=True, text=True, cwd=vlib.VERIF)
    return p.returncode, p.stdout + p.stderr


def reverts(only=None):
    subjects = subprocess.run(["git", "-C", "/repo", "log", "--format=%h %s"], capture_output=True, text=True).stdout.strip().split("\n")
    bad = 0
    for prefix, props in REVERTS:
        if only and not any(o in prefix or o in props for o in only):
            continue
        commit = next((ln.split()[0] for ln in subjects if ln.split(" ", 1)[1].startswith("fix: " + prefix)), None)
        if not commit:
            print("FAIL no fix commit for %r" % prefix)
            bad += 1
            continue
        wt = scratch_worktree(commit)
        try:
            diff = subprocess.run(["git", "-C", "/repo", "show", commit], capture_output=True, text=True).stdout
            p = subprocess.run(["git", "-C", wt, "apply", "-R", "--3way"], input=diff, capture_output=True, text=True)
            if p.returncode != 0:
                print("skip %s %-60s does not revert cleanly on HEAD" % (commit, prefix))
                continue
            b = subprocess.run([vlib.GO, "build", "./..."], cwd=wt, env=vlib.GOENV, capture_output=True, text=True)
            if b.returncode != 0:
                print("skip %s %-60s reverted tree does not build" % (commit, prefix))
                continue
            for prop in props:
                rc, out = run_check(prop, wt)
                flagged = rc == 1 and ("VIOLATION property=%s" % prop) in out
                bad += 0 if flagged else 1
                print("%s revert %s %-55s -> check %s exit %d" % ("ok  " if flagged else "FAIL", commit, prefix[:55], prop, rc))
        finally:
            drop_worktree(wt)
    return bad


def seeded(only=None):
    root = os.path.join(vlib.VERIF, "seeded")
    bad = 0
    for name in sorted(os.listdir(root)) if os.path.isdir(root) else []:
        meta_p = os.path.join(root, name, "meta.json")
        if not os.path.exists(meta_p) or (only and name not in only):
            continue
        meta = json.load(open(meta_p))
        if meta.get("expect_missed"):
            print("n/a  seeded %-28s not expected to be flagged: %s" % (name, meta["expect_missed"][:90]))
            continue
        wt = scratch_worktree("seed-" + name)
        try:
            p = subprocess.run(["git", "-C", wt, "apply", os.path.join(root, name, "patch.diff")], capture_output=True, text=True)
            if p.returncode != 0:
                print("skip seeded %s: patch does not apply: %s" % (name, p.stderr[:200]))
                continue
            for prop in meta.get("caught_by") or [meta["property"]]:
                rc, out = run_check(prop, wt)
                flagged = rc == 1 and "VIOLATION" in out
                bad += 0 if flagged else 1
                print("%s seeded %-28s -> check %s exit %d" % ("ok  " if flagged else "MISS", name, prop, rc))
        finally:
            drop_worktree(wt)
    return bad


def _http_scn(sid, steps, backend="mem"):
    return {"id": sid, "backend": backend, "opt": {}, "steps": steps, "grp": "", "spv": 0}


def binding():
    """the trace acceptors are bound to what the harness records: a recorded trace of the real code passes, and the same trace
    with ONE field changed, or one event removed, is rejected through the monitor that owns that fact"""
    import base64
    import gen
    rq, ans = gen.rq, gen.ans
    full = ans(ccp=1, ma=5, etag=1)
    long_ = ans(ccp=1, ma=50, etag=1)
    other = ans(ccp=1, ma=50, etag=2)
    n304 = ans(k="304", st=304, ccp=1, ma=50, etag=1, upd=1)
    http = [
        _http_scn("bind/reval", [{"op": "req", "rq": rq(), "ans": [full]}, {"op": "tick", "d": 7}, {"op": "req", "rq": rq(), "ans": [n304]}]),
        _http_scn("bind/hit", [{"op": "req", "rq": rq(), "ans": [long_]}, {"op": "tick", "d": 3}, {"op": "req", "rq": rq(), "ans": [other]}]),
        _http_scn("bind/miss", [{"op": "req", "rq": rq(), "ans": [long_]}, {"op": "tick", "d": 3}, {"op": "req", "rq": rq(u=1), "ans": [other]}]),
        _http_scn("bind/vary", [{"op": "req", "rq": rq(sel=[0, 0, 1, 0]), "ans": [ans(ccp=1, ma=50, etag=1, vary=[2])]}, {"op": "tick", "d": 3},
                                {"op": "req", "rq": rq(sel=[0, 0, 1, 0]), "ans": [other]}]),
    ]
    key = base64.b64encode(b"bind-key").decode()
    vals = [{"len": 300, "seed": 5}, {"len": 300, "seed": 6}]
    kv = [
        {"id": "bind/kv", "backend": "fs", "keys": [key], "vals": vals, "ops": [{"op": "set", "k": 0, "v": 0}, {"op": "get", "k": 0}]},
        {"id": "bind/enc", "backend": "fsenc", "keys": [key], "vals": vals,
         "ops": [{"op": "set", "k": 0, "v": 0}, {"op": "tamper", "k": 0, "how": "flip", "pos": 40}, {"op": "get", "k": 0}]},
    ]

    def ev(evs, kind, x=None, nth=1):
        c = 0
        for e in evs:
            if e["ev"] == kind and (x is None or e.get("x") == x):
                c += 1
                if c == nth:
                    return e
        raise KeyError(kind)

    def later(evs):
        ev(evs, "begin", 2)["t"] += 100
        r = ev(evs, "ret", 2)
        r["t"] += 100
        r["t0"] += 100

    def age_off(evs):
        ev(evs, "ret", 2)["age"] += 10

    def oic(evs):
        ev(evs, "begin", 2)["rq"]["fl"] = ["only-if-cached"]

    def nostore(evs):
        c = ev(evs, "call", 1)
        c["rep"]["ccp"], c["rep"]["fl"] = 1, ["no-store"]

    def other_variant(evs):
        ev(evs, "begin", 2)["rq"]["sel"] = [0, 0, 2, 0]

    def other_uri(evs):
        ev(evs, "begin", 2)["rq"]["u"] = 1

    def two_labels(evs):
        ev(evs, "ret", 2)["nlab"] = 2

    def hop(evs):
        ev(evs, "op", 1, 2)["hop"] = 1

    def wrong_value(evs):
        ev(evs, "kv", None, 2)["rv"] = 1

    def torn(evs):
        ev(evs, "kv", None, 2)["torn"] = 1

    def accepted(evs):
        g = ev(evs, "kv", None, 3)
        g["ok"], g["rv"] = 1, 0

    def plaintext(evs):
        ev(evs, "kv", None, 1)["plain"] = 1

    cases = [("bind/hit", "Trace", later, "C01", "the exchange that was served from the store moved 100 s later (beyond the lifetime)"),
             ("bind/hit", "Trace", age_off, "C11", "the Age of a hit changed by 10 s"),
             ("bind/miss", "Trace", oic, "C18", "the request of an exchange that called the origin marked only-if-cached"),
             ("bind/hit", "Trace", nostore, "C06", "the stored response marked no-store"),
             ("bind/vary", "Trace", other_variant, "C04", "the selecting value of the request that was served from the store changed"),
             ("bind/hit", "Trace", other_uri, "C03", "the URI of the request that was served from the store changed"),
             ("bind/hit", "Trace", two_labels, "C11", "two cache-status labels"),
             ("bind/hit", "Trace", hop, "C05", "a hop-by-hop marker in the stored bytes"),
             ("bind/kv", "TraceKV", wrong_value, "C14", "the value a Get returned changed"),
             ("bind/kv", "TraceKV", torn, "C14", "a Get marked as returning a partial value"),
             ("bind/enc", "TraceKV", accepted, "C17", "a Get of a damaged encrypted file marked successful"),
             ("bind/enc", "TraceKV", plaintext, "C17", "plaintext found in the file a Set wrote")]
    work = vlib.Work("selftest-binding")
    bad = 0
    try:
        binary = vlib.build_harness(work)
        t1, _ = vlib.run_harness(binary, http, work, 1, nproc=1, tag="bindhttp")
        t2, _ = vlib.run_harness(binary, kv, work, 1, nproc=1, tag="bindkv", test="TestKV")
        v1, _, _ = vlib.validate_traces(work, t1, nproc=1)
        v2, _, _ = vlib.validate_traces(work, t2, nproc=1, module="TraceKV")
        okay = not v1 and not v2
        bad += 0 if okay else 1
        print("%s the recorded traces pass as recorded" % ("ok  " if okay else "FAIL"))
        for i, (sid, module, fn, prop, what) in enumerate(cases):
            evs = vlib.scenario_trace((t1 if module == "Trace" else t2)[0], sid)
            fn(evs)
            path = work.path("bind%d.ndjson" % i)
            with open(path, "w") as f:
                for e in evs:
                    f.write(json.dumps(e, separators=(",", ":")) + "\n")
            try:
                viol, _, _ = vlib.validate_traces(work, [path], nproc=1, module=module)
                red = sorted({p for v in viol for p in v["props"]})
            except vlib.Inconclusive as e:
                red = ["(acceptor failed: %s)" % str(e)[:80]]
            okay = prop in red
            bad += 0 if okay else 1
            print("%s %-8s %-85s -> red: %s" % ("ok  " if okay else "FAIL", prop, what, ",".join(red)))
    finally:
        work.close()
    return bad


def run(args, seed):
    what = args[0] if args else "models"
    t = time.time()
    if what == "models":
        bad = models()
    elif what == "binding":
        bad = binding()
    elif what == "reverts":
        bad = reverts(args[1:])
    elif what == "seeded":
        bad = seeded(args[1:])
    else:
        print("selftest models | reverts [filter..] | seeded [name..]")
        return 2
    print("selftest %s: %d problems, %.0fs" % (what, bad, time.time() - t))
    return 1 if bad else 0
