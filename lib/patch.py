"""tiny helper: apply (old, new) replacements to a file, reporting the one that does not match"""
import sys
def apply(path, pairs):
    s = open(path).read()
    for i, (old, new) in enumerate(pairs):
        if s.count(old) != 1:
            print("patch %d: matches %d times:\n%s" % (i, s.count(old), old[:200]))
            sys.exit(1)
        s = s.replace(old, new)
    open(path, "w").write(s)
