#!/usr/bin/env python3
"""seedtool import <prop> <agent out dir>   : confirm a seeded change and keep it under /verif/seeded/<prop>-<name>/
   seedtool run <name> [props...]           : run checks against a kept seeded change (scratch worktree, removed afterwards)"""
import json, os, re, shutil, subprocess, sys, time
sys.path.insert(0, os.path.dirname(os.path.abspath(__file__)))
import vlib, selftest

ENV = vlib.GOENV
SEEDED = os.path.join(vlib.VERIF, "seeded")


def sh(cmd, cwd, timeout=900):
    p = subprocess.run(cmd, cwd=cwd, env=ENV, capture_output=True, text=True, timeout=timeout)
    return p.returncode, p.stdout + p.stderr


def demo_target(demo):
    src = open(demo).read()
    m = re.search(r"^package (\w+)", src, re.M)
    pkg = m.group(1) if m else "httpcache_test"
    sub = {"httpcache": ".", "httpcache_test": ".", "internal": "internal", "fscache": "store/fscache", "fscache_test": "store/fscache",
           "memcache": "store/memcache", "memcache_test": "store/memcache", "expapi": "store/expapi", "expapi_test": "store/expapi",
           "main": None}.get(pkg, "zz_verif_demo")  # any other package name: a directory of its own
    tests = re.findall(r"^func (Test\w+)\(", src, re.M)
    return sub, tests


def baseline_ok(wt):
    rc, out = sh([vlib.GO, "test", "-json", "-vet=off", "-count=1", "./..."], wt, timeout=1500)
    passed = set()
    for ln in out.split("\n"):
        try:
            e = json.loads(ln)
        except Exception:
            continue
        if e.get("Test") and e.get("Action") == "pass":
            passed.add(e["Package"] + "::" + e["Test"])
    base = set(json.load(open("/root/.vp/BASELINE.json"))["stable_pass"])
    return sorted(base - passed)


def do_import(prop, src):
    name = "%s-%s" % (prop, os.path.basename(src.rstrip("/")))
    dst = os.path.join(SEEDED, name)
    patch = os.path.join(src, "patch.diff")
    demo = os.path.join(src, "demo_test.go")
    if not os.path.exists(patch) or not os.path.exists(demo):
        print("incomplete:", src)
        return 1
    wt = selftest.scratch_worktree("import")
    ran = []
    try:
        sub, tests = demo_target(demo)
        if sub is None or not tests:
            print("demo is not a Go test of a known package:", demo)
            return 1
        os.makedirs(os.path.join(wt, sub), exist_ok=True)
        tgt = os.path.join(wt, sub, "zz_verif_demo_test.go")
        run = [vlib.GO, "test", "-tags", "verif", "-count=1", "-run", "^(%s)$" % "|".join(tests), "./" + sub]
        shutil.copy(demo, tgt)
        rc0, out0 = sh(run, wt)
        ran.append("without the change: `%s` in %s -> exit %d" % (" ".join(run[1:]), sub, rc0))
        rc, out = sh(["git", "apply", patch], wt)
        if rc != 0:
            print("patch does not apply:", out)
            return 1
        b, _ = sh([vlib.GO, "build", "./..."], wt)
        rc1, out1 = sh(run, wt)
        ran.append("with the change: same command -> exit %d" % rc1)
        os.remove(tgt)
        missing = baseline_ok(wt)
        ran.append("with the change: repository test suite, baseline tests not passing: %d" % len(missing))
        ok = rc0 == 0 and rc1 != 0 and b == 0 and not missing
        print("%s: demo without=%d with=%d build=%d baseline-missing=%d -> %s" % (name, rc0, rc1, b, len(missing), "CONFIRMED" if ok else "REJECTED"))
        if not ok:
            print(out0[-600:] if rc0 else "", out1[-300:] if rc1 == 0 else "", missing[:5])
            return 1
        os.makedirs(dst, exist_ok=True)
        shutil.copy(patch, os.path.join(dst, "patch.diff"))
        shutil.copy(demo, os.path.join(dst, "demo_test.go"))
        notes = os.path.join(src, "notes.md")
        if os.path.exists(notes):
            shutil.copy(notes, os.path.join(dst, "notes.md"))
        meta = {"property": prop, "name": name, "demo_package_dir": sub, "demo_tests": tests,
                "needs": (open(notes).read()[:1500] if os.path.exists(notes) else ""), "ran": ran, "caught_by": [], "checks_run": {}}
        json.dump(meta, open(os.path.join(dst, "meta.json"), "w"), indent=1)
        return 0
    finally:
        selftest.drop_worktree(wt)


def do_run(name, props):
    dst = os.path.join(SEEDED, name)
    meta = json.load(open(os.path.join(dst, "meta.json")))
    props = props or [meta["property"]]
    wt = selftest.scratch_worktree("run-" + name)
    try:
        rc, out = sh(["git", "apply", os.path.join(dst, "patch.diff")], wt)
        if rc != 0:
            print("patch does not apply on HEAD:", out[:300])
            return 1
        for prop in props:
            t = time.time()
            rc, out = selftest.run_check(prop, wt)
            flagged = rc == 1 and "VIOLATION property=%s" % prop in out
            meta["checks_run"][prop] = {"exit": rc, "flagged": flagged, "tail": out.strip().split("\n")[-1][:200]}
            if flagged and prop not in meta["caught_by"]:
                meta["caught_by"].append(prop)
            if not flagged and prop in meta["caught_by"]:
                meta["caught_by"].remove(prop)
            print("%s: check %s exit %d %s (%.0fs)" % (name, prop, rc, "CAUGHT" if flagged else "missed", time.time() - t))
        json.dump(meta, open(os.path.join(dst, "meta.json"), "w"), indent=1)
    finally:
        selftest.drop_worktree(wt)
    return 0


if __name__ == "__main__":
    if sys.argv[1] == "import":
        sys.exit(do_import(sys.argv[2], sys.argv[3]))
    if sys.argv[1] == "run":
        sys.exit(do_run(sys.argv[2], sys.argv[3:]))
