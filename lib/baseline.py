#!/usr/bin/env python3
"""runs the repository's test suite with the verif tag OFF and compares with /root/.vp/BASELINE.json"""
import json, os, subprocess, sys
env = dict(os.environ, GOFLAGS="-mod=mod", GOPROXY="off", GOSUMDB="off", GOTOOLCHAIN="local")
tags = sys.argv[1:]  # e.g. -tags verif
p = subprocess.run(["go1.26", "test", "-json", "-vet=off", "-count=1", "-timeout", "25m"] + tags + ["./..."], cwd="/repo", env=env, capture_output=True, text=True)
passed, failed = set(), set()
for ln in p.stdout.split("\n"):
    try:
        e = json.loads(ln)
    except Exception:
        continue
    if e.get("Test") and e.get("Action") in ("pass", "fail"):
        (passed if e["Action"] == "pass" else failed).add(e["Package"] + "::" + e["Test"])
base = set(json.load(open("/root/.vp/BASELINE.json"))["stable_pass"])
missing = sorted(base - passed)
print("baseline %d, passed now %d, baseline tests not passing: %d" % (len(base), len(passed), len(missing)))
for m in missing:
    print("  NOT PASSING:", m)
sys.exit(1 if missing else 0)
