#!/usr/bin/env python3
"""regenerates MANIFEST.json from the table below (kept in one place so it stays valid)"""
import json, os
V = os.path.dirname(os.path.dirname(os.path.abspath(__file__)))
props = [json.loads(l) for l in open(os.path.join(V, "properties.jsonl"))]

HTTP_NOTE = ("trusted base: the scripted origin and the testing/synctest virtual clock stand for network and time; the harness "
             "renders abstract classes to header text and recovers the meaning of reply headers by table lookup; TLC evaluates the "
             "monitors; the model checks are bounded by the constants recorded in the evidence")

CLAIMS = {
 "C01": ("model_checking", "MC_decide (families F and V) exhaustively explores the store-tick-probe decision table of the implementation-shaped model HttpCache.tla against the NoStaleServe monitor; every exported behaviour (quick: stratified sample; thorough: all) and seeded random histories are replayed into the real transport and the recorded traces are validated by TLC (Trace.tla), which evaluates the monitor on what the code did", "7 C01", "TLA+ model checking (TLC) of HttpCache.tla + replay of TLC behaviours into the code + TLC trace validation"),
 "C02": ("model_checking", "same engine as C01 with the ReuseNeedsValidation / QualifiedFieldsStripped / ConditionalRequestShape / RequestUntouched monitors; family V enumerates stored directives x request directives x validators x validation answers", "7 C02", "TLA+ model checking (TLC) + behaviour replay + TLC trace validation"),
 "C09": ("model_checking", "MustReuse monitor (lower bound of the envelope, fresh by more than a second under every reading) over the same replayed behaviours; keeps 'safe but useless' changes from passing", "7 C09", "TLA+ model checking (TLC) + behaviour replay + TLC trace validation"),
 "C11": ("model_checking", "AgeTruth and StatusTruth monitors evaluated by TLC on every reply of every replayed behaviour (hit, max-stale, only-if-cached, stale-while-revalidate, stale-if-error, revalidated, miss, 504)", "7 C11", "TLA+ model checking (TLC) + behaviour replay + TLC trace validation"),
 "C13": ("model_checking", "SieServes (must) and SieRefuses (may) monitors; family V enumerates placement of stale-if-error, staleness around the window and failure kinds", "7 C13", "TLA+ model checking (TLC) + behaviour replay + TLC trace validation"),
 "C18": ("model_checking", "OicNoNetwork monitor on every origin call and reply of exchanges carrying only-if-cached, over all store states of family V and the random histories", "7 C18", "TLA+ model checking (TLC) + behaviour replay + TLC trace validation"),
}

def main():
    checks, na = [], []
    for p in props:
        pid = p["id"]
        if pid in CLAIMS:
            cat, text, ref, tech = CLAIMS[pid]
            checks.append({"property_id": pid, "quick_cmd": "./check %s --tier quick" % pid,
                           "thorough_cmd": "./check %s --tier thorough" % pid,
                           "evidence_file": "/verif/evidence/%s.json" % pid,
                           "replay_cmd_template": "./check %s --replay {path}" % pid,
                           "engine": "tla-conformance",
                           "level_claimed": {"category": cat, "text": text, "design_ref": "DESIGN.md section " + ref},
                           "level_note": HTTP_NOTE, "technique": tech})
        else:
            na.append({"property_id": pid, "reason": "check not built yet (work in progress; see DESIGN.md section 10)"})
    m = {"version": 1, "setup_cmd": "./check setup",
         "hooks": {"guard": "verif", "enable": "go test -tags verif (the harness is always built with -tags verif)",
                   "baseline_off_cmd": "cd /repo && GOTOOLCHAIN=local GOFLAGS=-mod=mod GOPROXY=off GOSUMDB=off go1.26 test -json -vet=off -count=1 -timeout 25m ./...",
                   "source_commits": [], "add_only": True},
         "engines": [{"name": "tla-conformance", "path": "/verif/check", "serves_properties": sorted(CLAIMS),
                      "kind_free_text": "explicit TLA+ specifications (spec/*.tla) model-checked with TLC; TLC-generated behaviours replayed into the real code by the Go harness; recorded NDJSON traces validated by TLC against the monitors"}],
         "checks": checks,
         "notes": "exit 0 held / exit 1 VIOLATION line / exit 2 inconclusive; see DESIGN.md sections 6 and 9",
         "not_applicable": na}
    json.dump(m, open(os.path.join(V, "MANIFEST.json"), "w"), indent=1)
    print("MANIFEST: %d checks, %d not_applicable" % (len(checks), len(na)))

if __name__ == "__main__":
    main()
