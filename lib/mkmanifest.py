#!/usr/bin/env python3
"""regenerates MANIFEST.json from the table below (kept in one place so it stays valid)"""
import json, os
V = os.path.dirname(os.path.dirname(os.path.abspath(__file__)))
props = [json.loads(l) for l in open(os.path.join(V, "properties.jsonl"))]

HTTP_NOTE = ("trusted base: the scripted origin and the testing/synctest virtual clock stand for network and time; the harness "
             "renders abstract classes to header text and recovers the meaning of reply headers by table lookup; TLC evaluates the "
             "monitors; the model checks are bounded by the constants recorded in the evidence")

KV_NOTE = ("trusted base: the harness identifies returned values by SHA-256 (a strict prefix of a known value counts as torn), "
           "finds a key's file by directory diff, cuts writes with RLIMIT_FSIZE and kills the writer child at the fscache step hooks "
           "(build tag verif); the kernel's file semantics (atomic rename, unlink) are as modelled in FsAtomic.tla; TLC judges every "
           "recorded operation against the reference map KVStore.tla; nothing is claimed about cryptographic strength")

CLAIMS = {
 "C01": ("model_checking", "MC_decide (families F and V) exhaustively explores the store-tick-probe decision table of the implementation-shaped model HttpCache.tla against the NoStaleServe monitor; every exported behaviour (quick: stratified sample; thorough: all) and seeded random histories are replayed into the real transport and the recorded traces are validated by TLC (Trace.tla), which evaluates the monitor on what the code did", "7 C01", "TLA+ model checking (TLC) of HttpCache.tla + replay of TLC behaviours into the code + TLC trace validation"),
 "C02": ("model_checking", "same engine as C01 with the ReuseNeedsValidation / QualifiedFieldsStripped / ConditionalRequestShape / RequestUntouched monitors; family V enumerates stored directives x request directives x validators x validation answers", "7 C02", "TLA+ model checking (TLC) + behaviour replay + TLC trace validation"),
 "C09": ("model_checking", "MustReuse monitor (lower bound of the envelope, fresh by more than a second under every reading) over the same replayed behaviours; keeps 'safe but useless' changes from passing", "7 C09", "TLA+ model checking (TLC) + behaviour replay + TLC trace validation"),
 "C11": ("model_checking", "AgeTruth and StatusTruth monitors evaluated by TLC on every reply of every replayed behaviour (hit, max-stale, only-if-cached, stale-while-revalidate, stale-if-error, revalidated, miss, 504)", "7 C11", "TLA+ model checking (TLC) + behaviour replay + TLC trace validation"),
 "C13": ("model_checking", "SieServes (must) and SieRefuses (may) monitors; family V enumerates placement of stale-if-error, staleness around the window and failure kinds", "7 C13", "TLA+ model checking (TLC) + behaviour replay + TLC trace validation"),
 "C03": ("model_checking", "Uri.tla: TLC enumerates every base URI with up to two components replaced, checks on each pair that the code-shaped key function KeyOf identifies exactly the URIs that are equivalent under the RFC 3986 normal form NF (and that NF is idempotent), and exports the pair with its classification; the harness renders the atoms, stores a response for a and requests b; TLC validates the recorded traces with the NoCrossUri monitor (and MustReuse for equivalent pairs)", "7 C03", "TLA+ model checking (TLC) of Uri.tla + pair replay + TLC trace validation"),
 "C04": ("model_checking", "MC_hist families vary and wb: bounded history trees over requests with different selecting header values and origin answers whose Vary changes over time (none, a, (a,b), b, *), model-checked against the VariantMatches monitor and replayed; value classes are rendered to adversarial strings (header-name-like text) by the harness", "7 C04", "TLA+ model checking (TLC) + behaviour replay + TLC trace validation"),
 "C05": ("model_checking", "MC_store family bytes enumerates framing x body class x hop-by-hop fields x upstream Age; the model says which origin response each reply must copy, the harness compares bytes and end-to-end fields (harness observation asserted by the ByteFaithful monitor) on memory, file-system and encrypted file-system backends", "7 C05", "TLA+ model checking (TLC) of the configuration product + replay + TLC trace validation of harness byte observations"),
 "C06": ("model_checking", "MC_store family store: status x response directives x explicit freshness x request shape x complete/failing body, then a probe; NothingStored is evaluated by TLC on every write the recording store connection saw; random exchanges over all statuses and bodies failing at every byte", "7 C06", "TLA+ model checking (TLC) + behaviour replay + TLC trace validation"),
 "C07": ("model_checking", "MC_hist family inval: two stored resources, an unsafe request of any method token / status / Location / Content-Location (same-origin and cross-origin), then probes; InvalidatedNotReused and CrossOriginKept monitors", "7 C07", "TLA+ model checking (TLC) + behaviour replay + TLC trace validation"),
 "C08": ("model_checking", "MC_hist families wb and vary: validation by 304 (header updates, Age, missing Date) or full reply, foreground and stale-while-revalidate background, two variants; FreshenedOnce / ReplacedNeverServed / OtherVariantsKept monitors against the ledger's expectation of what is stored", "7 C08", "TLA+ model checking (TLC) + behaviour replay + TLC trace validation"),
 "C10": ("model_checking", "MC_faults: fault placement (each store operation of an exchange failing, singly and in pairs) is a choice of the model and enumerated exhaustively, combined with origin failures during validation / background revalidation; replay varies the failure kind and the logger; crashes and deadlocks of the real code are violations; Total / ErrorOnlyFromOrigin / OriginWinsOnStoreFault / LoggerIndependent monitors", "7 C10", "TLA+ model checking (TLC) with fault actions + fault replay + TLC trace validation"),
 "C12": ("model_checking", "meaning-level model: the specification's state holds directive meanings only; every sampled MC_decide behaviour is executed in the canonical spelling and 6 rewritten spellings and TLC compares the abstract observation sequences (SpellingInvariant), each run also satisfying all other monitors; numbers >= 2^31 are rendered with spellings up to 10^30", "7 C12", "TLA+ model checking (TLC) + spelling-group replay + TLC trace validation (canonical run of the code as oracle)"),
 "C16": ("model_checking", "MC_conc: TLC enumerates every interleaving of two concurrent exchanges (and the background revalidation) at the granularity of store operations and origin calls against the ownership and order-independent monitors; the interleavings are exported and replayed by gating the goroutines of the real transport at those operations, plus free-running concurrent rounds, all under the Go race detector (the sensor below operation granularity); TLC validates the recorded traces", "7 C16", "TLA+ model checking (TLC) of interleavings + gate-scheduled replay under the race detector + TLC trace validation"),
 "C19": ("model_checking", "Footprint.tla: a model of the store alone (variant indexes with Date ranks, entries, freshness; no clock, no counters) whose state space is finite, so TLC explores every reachable store state under UNBOUNDED repetition of the request alphabet (GET with any selecting values / no-cache, origin answering 304 / full reply with any Vary set incl. '*' / not storable / failure, unsafe requests with same-origin Location, time passing) and checks Bounded, OneRefPerVariant and the action property InvalidationCleans; long behaviours of the same model (TLC simulation mode) are replayed into the real transport and the predicted index length and key count after every request are compared; plus MC_hist families vary and inval and periodic histories repeated far beyond the bound, judged by the Bounded / InvalidationCleans monitor (key count and index length <= B = 4 * pairs * (vary sets + 1) + 8 once more than 3B requests were made)", "7 C19", "TLA+ model checking (TLC) of Footprint.tla (complete state space) and MC_hist + replay of TLC simulation behaviours + TLC trace validation"),
 "C20": ("model_checking", "MC_swr: background latency 0 .. beyond the timeout or never, outcome 304 / full / error / 503, every timeout setting, caller cancellation before / after / never; replayed on the virtual clock; SwrTiming monitor (foreground elapsed 0 s, exactly one conditional background request, cancelled at the effective timeout, no goroutine left)", "7 C20", "TLA+ model checking (TLC) + behaviour replay + TLC trace validation"),
 "C14": ("model_checking", "MC_kv: TLC enumerates every sequence of Set / Get / Delete / Keys / Reopen up to the stated depth over keys that are prefixes of each other, with the outcome the reference map KVStore.tla prescribes; the harness renders the keys adversarially and replays on every backend (partly through the expapi handlers); TraceKV.tla applies every recorded operation to the reference map and judges its outcome; FsLayout.tla model-checks the file-name design (directory marker) at model scale", "7 C14", "TLA+ model checking (TLC) of KVStore / FsLayout + operation-sequence replay + TLC trace validation against the reference map"),
 "C15": ("model_checking", "FsAtomic.tla: exhaustive TLC run over all interleavings of the file-level steps of concurrent Set / Get / Delete on one key with write failure and process kill at every step, for the rename-based design (NoTornRead, LiveComplete); binding to the code by fault enumeration: a writer process cut by RLIMIT_FSIZE at every byte and killed at every hook step / random instants, judged by TLC against KVStore.tla", "7 C15", "TLA+ model checking (TLC) of FsAtomic + crash / cut-point enumeration on the real backend + TLC trace validation"),
 "C17": ("model_checking", "MC_enc: a code-shaped model of the encrypting backend at file level (store key id, cache key bound into the seal, nonce, damage; store opened with the right key / another key / without encryption; the transport on top) run against the reference of KVStore.tla: TLC enumerates every sequence of Set / Get / Delete / damage (flip, truncate, extend) / copy another key's file / reopen / transport store and read / damage all files up to the stated depth and every (key source x key length) way of switching encryption on, checks Judged, FreshNonces, NoPlaintext on the model and exports each sequence with the predicted outcomes; the harness replays them on the real encrypted backend with seeded positions, sizes and keys; plus tamper enumeration at every byte position, overlapping Sets under the race detector; TraceKV.tla judges every recorded operation (plaintext search in the files an operation wrote, ciphertext freshness, rejection of every altered / foreign / wrong-key file, transport miss instead of serving)", "7 C17", "TLA+ model checking (TLC) of MC_enc against KVStore + operation-sequence replay on the real backend + tamper enumeration + TLC trace validation"),
 "C18": ("model_checking", "OicNoNetwork monitor on every origin call and reply of exchanges carrying only-if-cached, over all store states of family V and the random histories", "7 C18", "TLA+ model checking (TLC) + behaviour replay + TLC trace validation"),
}

def main():
    checks, na = [], []
    for p in props:
        pid = p["id"]
        if pid in CLAIMS:
            cat, text, ref, tech = CLAIMS[pid]
            note = KV_NOTE if pid in ("C14", "C15", "C17") else HTTP_NOTE
            checks.append({"property_id": pid, "quick_cmd": "./check %s --tier quick" % pid,
                           "thorough_cmd": "./check %s --tier thorough" % pid,
                           "evidence_file": "/verif/evidence/%s.json" % pid,
                           "replay_cmd_template": "./check %s --replay {path}" % pid,
                           "engine": "tla-conformance",
                           "level_claimed": {"category": cat, "text": text, "design_ref": "DESIGN.md section " + ref},
                           "level_note": note, "technique": tech})
        else:
            na.append({"property_id": pid, "reason": "check not built yet (work in progress; see DESIGN.md section 10)"})
    m = {"version": 1, "setup_cmd": "./check setup",
         "hooks": {"guard": "verif", "enable": "go test -tags verif (the harness is always built with -tags verif)",
                   "baseline_off_cmd": "cd /repo && GOTOOLCHAIN=local GOFLAGS=-mod=mod GOPROXY=off GOSUMDB=off go1.26 test -json -vet=off -count=1 -timeout 25m ./...",
                   "source_commits": ["2985c5e"], "add_only": True},
         "engines": [{"name": "tla-conformance", "path": "/verif/check", "serves_properties": sorted(CLAIMS),
                      "kind_free_text": "explicit TLA+ specifications (spec/*.tla) model-checked with TLC; TLC-generated behaviours replayed into the real code by the Go harness; recorded NDJSON traces validated by TLC against the monitors"}],
         "checks": checks,
         "notes": "exit 0 held / exit 1 VIOLATION line / exit 2 inconclusive; see DESIGN.md sections 6 and 9",
         "not_applicable": na}
    json.dump(m, open(os.path.join(V, "MANIFEST.json"), "w"), indent=1)
    print("MANIFEST: %d checks, %d not_applicable" % (len(checks), len(na)))

if __name__ == "__main__":
    main()
