package harness

import (
	"context"
	"fmt"
	"hash/fnv"
	"io"
	"log/slog"
	"net/http"
	"os"
	"path/filepath"
	"reflect"
	"runtime"
	"sort"
	"strconv"
	"strings"
	"sync"
	"testing"
	"testing/synctest"
	"time"

	"github.com/bartventer/httpcache"
	"github.com/bartventer/httpcache/store/driver"
	"github.com/bartventer/httpcache/store/fscache"
	"github.com/bartventer/httpcache/store/memcache"
)

const encKey = "6S-Ks2YYOW0xMvTzKSv6QD30gZeOi1c6Ydr-As5csWk="

// gateCtl stops every store operation and origin call of the exchanges of a scheduled
// concurrent step until the scheduler releases that exchange for one operation.
type gateCtl struct {
	mu      sync.Mutex
	waiting map[int]chan struct{}
	free    bool
}

func (g *gateCtl) wait(x int) {
	g.mu.Lock()
	if g.free || x == 0 {
		g.mu.Unlock()
		return
	}
	ch := make(chan struct{})
	g.waiting[x] = ch
	g.mu.Unlock()
	<-ch
}

func (g *gateCtl) release(x int) bool {
	g.mu.Lock()
	ch, ok := g.waiting[x]
	delete(g.waiting, x)
	g.mu.Unlock()
	if ok {
		close(ch)
	}
	return ok
}

func (g *gateCtl) open() {
	g.mu.Lock()
	g.free = true
	for x, ch := range g.waiting {
		close(ch)
		delete(g.waiting, x)
	}
	g.mu.Unlock()
}

// replyRec is what the driver keeps about a returned response to detect later
// mutation by the cache (C16).
type replyRec struct {
	x    int
	hdr  http.Header // live map handed to the caller
	snap http.Header // deep copy taken at return
	req  *http.Request
	rsnp http.Header
	rurl string
	held io.ReadCloser // a body the caller has not read yet (latebody 2)
	want []byte        // ... and what it has to deliver
}

func scnSeed(id string, seed int64) int64 {
	h := fnv.New64a()
	h.Write([]byte(id))
	return int64(h.Sum64()>>1) ^ seed
}

type runner struct {
	t       *testing.T
	w       *World
	sc      *Scenario
	dir     string
	conn    *RecConn
	tr      http.RoundTripper
	nx      int
	replies []*replyRec
	mu      sync.Mutex
	name    string
	cancels []context.CancelFunc
}

func (r *runner) openBackend() error {
	var inner driver.Conn
	var err error
	switch r.sc.Backend {
	case "fs":
		opts := []fscache.Option{fscache.WithBaseDir(r.dir)}
		if r.sc.Opt.Mtime == 1 {
			opts = append(opts, fscache.WithUpdateMTime(true))
		}
		inner, err = fscache.Open("app", opts...)
	case "fsenc":
		inner, err = fscache.Open("app", fscache.WithBaseDir(r.dir), fscache.WithEncryption(encKey))
	default:
		if r.conn != nil { // memory "reopen": same map, new transport
			inner = r.conn.inner
		} else {
			inner = memcache.Open()
		}
	}
	if err != nil {
		return err
	}
	if r.conn == nil {
		r.conn = newRecConn(r.w, inner)
	} else {
		r.conn.inner = inner
	}
	registerConn(r.name, r.conn)
	opts := []httpcache.Option{httpcache.WithUpstream(&Origin{w: r.w})}
	if r.sc.Opt.Swr != 0 || r.sc.Opt.SwrSet == 1 {
		opts = append(opts, httpcache.WithSWRTimeout(time.Duration(r.sc.Opt.Swr)*time.Millisecond))
	}
	if r.sc.Opt.Log == 1 {
		opts = append(opts, httpcache.WithLogger(slog.New(slog.NewTextHandler(io.Discard, &slog.HandlerOptions{Level: slog.LevelDebug}))))
	}
	r.tr = httpcache.NewTransport("verif://" + r.name, opts...)
	return nil
}

func (w *World) buildRequest(ctx context.Context, rq *Rq) (*http.Request, error) {
	// (a scenario is JSON and cannot carry bytes that are not UTF-8: RAWFF / RAWFE stand for the bytes 0xff / 0xfe)
	u := strings.ReplaceAll(strings.ReplaceAll(rq.URL, "RAWFF", "\xff"), "RAWFE", "\xfe")
	if u == "" {
		u = urlOf(rq.U, rq.USp)
	}
	m := rq.M
	if m == "" {
		m = "GET"
	}
	req, err := http.NewRequestWithContext(ctx, m, u, nil)
	if err != nil {
		return nil, err
	}
	if rq.Pragma == 1 {
		req.Header.Set("Pragma", "no-cache")
	}
	ccLines := rq.Ccl
	if ccLines == nil {
		ccLines = w.con.renderCC(w.con.reqDirectives(rq), rq.Sp)
	}
	if rq.RawKeys == 3 && len(ccLines) > 0 {
		// the field under two keys of the map at once: both go out on the wire and together they are one list
		req.Header.Set("Cache-Control", "no-transform")
	}
	for _, l := range ccLines {
		if rq.RawKeys >= 2 {
			req.Header["cache-control"] = append(req.Header["cache-control"], l)
		} else {
			req.Header.Add("Cache-Control", l)
		}
	}
	if rq.Range == 1 {
		// any Range field makes it a range request, whatever the unit and its spelling - and whatever the letter case of its
		// key in the header map
		v := []string{"bytes=0-3", "Bytes=2-5", "BYTES=2-5", "items=2-5", "bytes=-4", "bytes=1-"}[w.rnd.Intn(6)]
		if rq.RawKeys >= 1 {
			req.Header["range"] = []string{v}
		} else {
			req.Header.Set("Range", v)
		}
	}
	for f, cl := range rq.Sel {
		if cl > 0 && f < len(SelFields) {
			vals := strings.Split(selValue(f, cl, rq.SelSp), "\n") // a value class may be several field lines
			if rq.RawKeys >= 1 {
				req.Header[strings.ToLower(SelFields[f])] = vals
			} else {
				req.Header[SelFields[f]] = vals
			}
		}
	}
	if rq.Inm > 0 {
		if rq.Inm == 9 {
			req.Header.Set("If-None-Match", `"client-etag"`)
		} else {
			req.Header.Set("If-None-Match", fmt.Sprintf(`"etag-%d"`, rq.Inm))
		}
	}
	if rq.Ims > 0 {
		req.Header.Set("If-Modified-Since", httpDate(w.epoch.Add(-time.Hour)))
	}
	req.Header.Set("User-Agent", "verif-harness")
	return req, nil
}

func rqAbs(rq *Rq) M {
	m := rq.M
	if m == "" {
		m = "GET"
	}
	sel := make([]int, len(SelFields))
	copy(sel, rq.Sel)
	for i := range sel { // an empty value is equivalent to an absent one
		if i == 3 && sel[i] == 3 {
			sel[i] = 0
		}
	}
	return M{"u": rq.U, "url": rq.URL, "m": m, "range": rq.Range, "ma": rq.Ma, "mf": rq.Mf, "ms": rq.Ms,
		"sie": rq.Sie, "fl": strs(rq.Fl), "sel": sel, "inm": rq.Inm, "ims": rq.Ims, "sp": rq.Sp, "usp": rq.USp, "pragma": rq.Pragma, "ugap": rq.UGap}
}

// headerMeaning maps the reply's header strings back to the abstract values
// the harness produced them from (table lookup; nothing is parsed).
func (w *World) headerMeaning(h http.Header) M {
	w.mu.Lock()
	defer w.mu.Unlock()
	unk := 0
	out := M{"ccp": 0, "ma": None, "fl": []string{}, "swr": None, "sie": None, "ncf": 0}
	if vs := h.Values("Cache-Control"); len(vs) > 0 {
		out["ccp"] = 1
		if mean, ok := w.ccTab[strings.Join(vs, "\x00")]; ok {
			out["ma"], out["fl"], out["swr"], out["sie"], out["ncf"] = mean.Ma, mean.Fl, mean.Swr, mean.Sie, mean.Ncf
		} else {
			unk++
			out["ma"] = Invalid
		}
	}
	date := func(name string) int {
		vs := h.Values(name)
		if len(vs) == 0 {
			return None
		}
		if len(vs) > 1 {
			unk++
			return Invalid
		}
		if v, ok := w.dateTab[vs[0]]; ok {
			return v
		}
		if t, err := http.ParseTime(vs[0]); err == nil { // a Date the cache itself supplied
			return logT(w.epoch, t)
		}
		unk++
		return Invalid
	}
	out["date"], out["exp"], out["lm"] = date("Date"), date("Expires"), date("Last-Modified")
	out["etag"] = 0
	if v := h.Get("ETag"); v != "" {
		if c, ok := w.etagTab[v]; ok {
			out["etag"] = c
		} else {
			unk++
			out["etag"] = Invalid
		}
	}
	out["vary"], out["vs"] = []int{}, 0
	if vv := h.Values("Vary"); len(vv) > 0 {
		v := vv[0]
		if len(vv) > 1 {
			v += "\x00multi"
		}
		if f, ok := w.varyTab[v]; ok {
			if len(f) == 1 && f[0] == -1 {
				out["vs"] = 1
			} else {
				out["vary"] = f
			}
		} else {
			unk++
		}
	}
	out["upd"] = ""
	if v := h.Get("X-Upd"); strings.HasPrefix(v, "upd-") {
		out["upd"] = strings.TrimPrefix(v, "upd-")
	}
	out["secret"] = b2i(h.Get("X-Secret") != "")
	out["unk"] = unk
	return out
}

func mark(s, prefix string) string {
	s = strings.TrimSpace(s)
	if strings.HasPrefix(s, "~"+prefix) && strings.HasSuffix(s, "~") {
		return s[1 : len(s)-1]
	}
	return ""
}

var hopNames = []string{"Connection", "X-Hop-A", "X-Hop-B", "Keep-Alive", "Proxy-Authenticate",
	"Proxy-Authentication-Info", "Upgrade", "Te", "Proxy-Connection", "Transfer-Encoding"}

var cacheOwn = map[string]bool{"Age": true, "X-Httpcache-Status": true, "X-From-Cache": true}

// doReq performs one exchange and logs begin / ret.
func (r *runner) doReq(st *Step) { r.doReqX(st, 0) }

func (r *runner) doReqX(st *Step, x int) {
	w := r.w
	if x == 0 {
		r.mu.Lock()
		r.nx++
		x = r.nx
		r.mu.Unlock()
	}
	ctx, cancel := context.WithCancel(context.WithValue(context.Background(), xkey{}, x))
	r.mu.Lock()
	r.cancels = append(r.cancels, cancel) // cancelled at the end of the scenario unless scripted earlier
	r.mu.Unlock()
	if st.Cancel == 2 {
		cancel()
	}
	if st.Cancel == 3 {
		// the caller's context has a deadline of its own, far beyond any cache timeout, and lives on after the return
		var c2 context.CancelFunc
		ctx, c2 = context.WithTimeout(ctx, 300*time.Second)
		r.mu.Lock()
		r.cancels = append(r.cancels, c2)
		r.mu.Unlock()
	}
	req, err := w.buildRequest(ctx, st.Rq)
	if err != nil {
		w.log.Emit(M{"ev": "skip", "x": x, "why": "url: " + err.Error()})
		return
	}
	e := &exchange{x: x, gid: gid(), ans: st.Ans, faults: st.Faults, open: true, hdr: req.Header.Clone(), url: req.URL.String(), cancel: st.Cancel, noStore: contains(st.Rq.Fl, "no-store")}
	w.mu.Lock()
	w.ex[x] = e
	w.mu.Unlock()
	ra := rqAbs(st.Rq)
	ra["urlkey"] = req.URL.String()
	ra["cancel"] = st.Cancel
	t0 := w.now()
	hard := 0
	for _, f := range st.Faults {
		if f.Kind != "trunc" && f.Kind != "flip" && f.Kind != "flipat" && f.Kind != "flipat1" && f.Kind != "truncat" && f.Kind != "extend" {
			hard = 1
		}
	}
	w.log.Emit(M{"ev": "begin", "x": x, "t": t0, "rq": ra, "nfault": len(st.Faults), "hard": hard})
	hsnap := req.Header.Clone()
	usnap := req.URL.String()
	var resp *http.Response
	var rerr error
	panicked := ""
	func() {
		defer func() {
			if p := recover(); p != nil {
				panicked = fmt.Sprint(p)
			}
		}()
		resp, rerr = r.tr.RoundTrip(req)
	}()
	w.mu.Lock()
	e.open = false
	fg := 0
	w.mu.Unlock()
	ev := M{"ev": "ret", "x": x, "t": w.now(), "t0": t0, "err": b2i(rerr != nil), "panic": b2i(panicked != ""),
		"neither": b2i(resp == nil && rerr == nil && panicked == ""), "both": b2i(resp != nil && rerr != nil),
		"st": 0, "label": "", "nlab": 0, "fc": "", "tok": "", "tag": "", "age": None, "nage": 0,
		"bodyok": 1, "bodyerr": 0, "e2eok": 1, "hopin": 0, "extra": []string{}, "missing": []string{}, "fgcalls": fg,
		"requnch": b2i(reflect.DeepEqual(req.Header, hsnap) && req.URL.String() == usnap),
		"h": w.headerMeaning(http.Header{}), "errs": "", "proto": "", "sameproto": 1, "clen": -1, "scrib": 0}
	if panicked != "" {
		ev["errs"] = panicked
	}
	if rerr != nil {
		ev["errs"] = rerr.Error()
		ev["origerr"] = b2i(strings.Contains(rerr.Error(), "scripted origin failure") || strings.Contains(rerr.Error(), "context"))
	} else {
		ev["origerr"] = 0
	}
	if resp != nil {
		ev["st"] = resp.StatusCode
		labs := resp.Header.Values(httpcache.CacheStatusHeader)
		ev["nlab"] = len(labs)
		if len(labs) > 0 {
			ev["label"] = labs[0]
		}
		ev["fc"] = strings.Join(resp.Header.Values("X-From-Cache"), ",")
		tok, tag := mark(resp.Header.Get("X-Verif-Tok"), "tk"), mark(resp.Header.Get("X-Verif-Tag"), "tg")
		ev["tok"], ev["tag"] = tok, tag
		ages := resp.Header.Values("Age")
		ev["nage"] = len(ages)
		if len(ages) > 0 {
			if n, err := strconv.ParseInt(ages[0], 10, 64); err == nil && n >= 0 {
				ev["age"] = capv(n)
			} else if allDigits(ages[0]) {
				ev["age"] = CAP
			} else {
				ev["age"] = Invalid
			}
		}
		ev["h"] = w.headerMeaning(resp.Header)
		ev["proto"] = resp.Proto
		var body []byte
		var berr error
		if st.LateBody == 1 {
			// the caller reads the body only after background work that is due has finished
			synctest.Wait()
		}
		var held io.ReadCloser
		if st.LateBody == 2 && resp.Body != nil && w.sentBody(tok) != nil {
			// the caller keeps the response and reads its body at the very end of the scenario
			held, body = resp.Body, w.sentBody(tok)
		} else if resp.Body != nil {
			body, berr = io.ReadAll(resp.Body)
			resp.Body.Close()
		}
		ev["bodyerr"] = b2i(berr != nil)
		ev["clen"] = capv(resp.ContentLength)
		w.mu.Lock()
		sr := w.sent[tok]
		var want http.Header
		if sr != nil {
			// 304s received in this exchange (foreground) or by its background
			// revalidation freshen what is expected from now on
			// a 304 that may not be stored (no-store on the request or on the 304)
			// shows in this reply only
			noStore := func(t304 string) bool {
				for _, f := range st.Rq.Fl {
					if f == "no-store" {
						return true
					}
				}
				return w.tagNS[t304]
			}
			for _, t304 := range e.fg304 {
				if !noStore(t304) {
					w.apply304(tok, t304)
				}
			}
			want = w.effHdr[tok].Clone()
			for _, t304 := range e.fg304 {
				if noStore(t304) {
					for k, v := range w.tagHdr[t304] {
						if k != "Content-Length" {
							want[k] = v
						}
					}
					if _, ok := w.tagHdr[t304]["Date"]; !ok {
						delete(want, "Date")
					}
				}
			}
			// the background revalidation of this very exchange only affects later ones
			for _, t304 := range w.bg304[x] {
				if w.lateTag[t304] {
					w.fuzzy[tok] = true
				} else if !noStore(t304) {
					w.apply304(tok, t304)
				}
			}
			if w.fuzzy[tok] {
				want = nil
			}
			delete(w.bg304, x)
			w.servedX[x] = tok
		}
		w.mu.Unlock()
		if sr != nil && want == nil {
			ev["bodyok"] = b2i(string(body) == string(sr.body))
			ev["stsame"] = b2i(resp.StatusCode == sr.status)
		} else if sr != nil {
			ev["bodyok"] = b2i(string(body) == string(sr.body))
			// end-to-end header comparison against the response it was stored
			// from, with fields replaced by the 304s that freshened it since
			extra, missing := []string{}, []string{}
			for k, v := range want {
				// (a Date the origin sent is an end-to-end field like any other; one it did not send may be added;
				// so is the Content-Length of a response that was framed by it)
				if cacheOwn[k] {
					continue
				}
				if k == "X-Secret" || k == "Etag" && strings.Contains(strings.ToLower(strings.Join(want["Cache-Control"], ",")), `"etag, x-secret"`) {
					continue // may be stripped under qualified no-cache
				}
				if !reflect.DeepEqual(resp.Header[k], v) {
					missing = append(missing, k)
				}
			}
			for k := range resp.Header {
				if cacheOwn[k] || k == "Content-Length" || k == "Date" {
					continue
				}
				if _, ok := want[k]; !ok {
					extra = append(extra, k)
				}
			}
			sort.Strings(extra)
			sort.Strings(missing)
			ev["extra"], ev["missing"] = extra, missing
			ev["e2eok"] = b2i(len(extra) == 0 && len(missing) == 0)
			ev["stsame"] = b2i(resp.StatusCode == sr.status)
		} else {
			ev["stsame"] = 1
		}
		if sr != nil && held == nil && berr == nil && req.Method != http.MethodHead {
			// trailer fields are part of the message (RFC 9110 6.5): once the body has been read they are there,
			// exactly when and as the origin sent them
			got := resp.Trailer.Values("X-Trail")
			if sr.trailer && !reflect.DeepEqual(got, []string{"trailer-value"}) || !sr.trailer && len(resp.Trailer) > 0 {
				ev["e2eok"] = 0
				if ms, ok := ev["missing"].([]string); ok {
					ev["missing"] = append(ms, "trailer:X-Trail")
				}
			}
		}
		hop := 0
		for _, hn := range hopNames {
			for _, v := range resp.Header.Values(hn) {
				if hopRe.MatchString(v) {
					hop++
				}
			}
		}
		ev["hopin"] = hop
		// the response is the caller's: it may write to its header. No other response may ever show that.
		ev["scrib"] = b2i(len(resp.Header.Values("X-Caller-Scribble")) > 0)
		resp.Header.Set("X-Caller-Scribble", strconv.Itoa(x))
		r.mu.Lock()
		r.replies = append(r.replies, &replyRec{x: x, hdr: resp.Header, snap: resp.Header.Clone(), req: req, rsnp: hsnap, rurl: usnap,
			held: held, want: body})
		r.mu.Unlock()
	} else {
		ev["stsame"] = 1
	}
	w.mu.Lock()
	ev["fgcalls"] = e.ncalls // refined by the trace spec from call events (bg flag)
	w.mu.Unlock()
	w.log.Emit(ev)
	if st.Cancel == 1 {
		cancel()
	}
	if st.Reuse > 0 && req != nil {
		// the request belongs to the caller again: it changes a header for its next use while background work
		// of the cache may still be going on
		if st.Reuse >= 10 {
			req.URL.RawQuery = "q=reused" + strconv.Itoa(st.Reuse) // another resource altogether
		} else {
			req.Header.Set(SelFields[2], selValue(2, st.Reuse, 0))
		}
		r.mu.Lock()
		for _, rp := range r.replies {
			if rp.req == req {
				rp.rsnp = req.Header.Clone()
				rp.rurl = req.URL.String()
			}
		}
		r.mu.Unlock()
	}
}

func allDigits(s string) bool {
	if s == "" {
		return false
	}
	for i := 0; i < len(s); i++ {
		if s[i] < '0' || s[i] > '9' {
			return false
		}
	}
	return true
}

func transportGoroutines() int {
	buf := make([]byte, 1<<20)
	n := runtime.Stack(buf, true)
	cnt := 0
	for _, g := range strings.Split(string(buf[:n]), "\n\n") {
		if strings.Contains(g, "httpcache.(*transport)") || strings.Contains(g, "harness.(*Origin).RoundTrip") {
			cnt++
		}
	}
	return cnt
}

// RunScenario executes one sequential scenario inside a synctest bubble.
func RunScenario(t *testing.T, sc *Scenario, log *EventLog, seed int64, workDir string) {
	synctest.Test(t, func(t *testing.T) {
		s := scnSeed(sc.ID, seed)
		w := newWorld(sc, log, s, seed)
		r := &runner{t: t, w: w, sc: sc, name: "c" + strconv.FormatInt(time.Now().UnixNano(), 36) + strconv.Itoa(os.Getpid())}
		r.name = strings.ToLower(r.name) + strconv.FormatUint(uint64(s)&0xffffff, 36)
		if sc.Backend == "fs" || sc.Backend == "fsenc" {
			d, err := os.MkdirTemp(workDir, "fs")
			if err != nil {
				t.Fatal(err)
			}
			r.dir = d
			defer os.RemoveAll(d)
		}
		// the process's local time zone must not matter
		time.Local = time.UTC
		if sc.Opt.Tz != 0 {
			time.Local = time.FixedZone("verif", sc.Opt.Tz*3600)
		}
		log.Emit(M{"ev": "reset", "scn": sc.ID, "backend": sc.Backend, "seed": int(seed % 1000000), "t": w.now(),
			"swr": swrEffective(sc.Opt), "log": sc.Opt.Log, "grp": sc.Grp, "spv": sc.Spv, "gk": sc.Gk})
		if err := r.openBackend(); err != nil {
			t.Fatalf("open backend: %v", err)
		}
		defer unregisterConn(r.name)
		maxLat := 0
		for i := range sc.Steps {
			st := &sc.Steps[i]
			for _, a := range st.Ans {
				if a.Lat > maxLat {
					maxLat = a.Lat
				}
			}
			for _, ps := range st.Par {
				for _, a := range ps.Ans {
					if a.Lat > maxLat {
						maxLat = a.Lat
					}
				}
			}
			switch st.Op {
			case "req":
				r.doReq(st)
				// background work that is due now runs before the scenario goes on, so that a
				// sequential scenario is sequential (overlap is the business of "conc" steps)
				synctest.Wait()
			case "tick":
				d := time.Duration(st.D) * time.Second
				if st.D >= CAP {
					d = time.Duration(1<<31+w.rnd.Intn(100000)) * time.Second
				}
				time.Sleep(d)
				synctest.Wait()
				log.Emit(M{"ev": "tick", "d": st.D, "t": w.now()})
			case "conc":
				// the requests of this step are issued concurrently on the one transport
				log.Emit(M{"ev": "conc", "n": len(st.Par), "t": w.now()})
				var wg sync.WaitGroup
				if len(st.Sched) > 0 {
					// replay of a model interleaving: exchange numbers are fixed up front, every store operation
					// and origin call waits at the gate, the schedule releases one operation at a time
					g := &gateCtl{waiting: map[int]chan struct{}{}}
					w.mu.Lock()
					w.gate = g
					w.mu.Unlock()
					r.mu.Lock()
					x0 := r.nx
					r.nx += len(st.Par)
					r.mu.Unlock()
					for j := range st.Par {
						wg.Add(1)
						go func(ps *Step, x int) {
							defer wg.Done()
							r.doReqX(ps, x)
						}(&st.Par[j], x0+1+j)
					}
					synctest.Wait()
					skipped := 0
					for _, ci := range st.Sched {
						if ci >= 0 && ci < len(st.Par) && g.release(x0+1+ci) {
							synctest.Wait()
						} else {
							skipped++
						}
					}
					g.open()
					wg.Wait()
					synctest.Wait()
					w.mu.Lock()
					w.gate = nil
					w.mu.Unlock()
					log.Emit(M{"ev": "sched", "n": len(st.Sched), "skipped": skipped, "t": w.now()})
				} else {
					for j := range st.Par {
						wg.Add(1)
						go func(ps *Step) {
							defer wg.Done()
							r.doReq(ps)
						}(&st.Par[j])
					}
					wg.Wait()
				}
				log.Emit(M{"ev": "concend", "t": w.now()})
			case "reopen":
				synctest.Wait()
				if err := r.openBackend(); err != nil {
					t.Fatalf("reopen backend: %v", err)
				}
				log.Emit(M{"ev": "reopen", "t": w.now()})
			}
		}
		// horizon: let background work finish or time out, then look for leftovers
		synctest.Wait()
		horizon := swrEffective(sc.Opt)/1000 + 1
		if maxLat < horizon {
			horizon = horizon + 1
		}
		time.Sleep(time.Duration(horizon) * time.Second)
		synctest.Wait()
		leftT := transportGoroutines()
		left := leftT
		if left > 0 { // hung origin calls hold goroutines only as long as the origin does
			w.releaseHangs()
			time.Sleep(time.Duration(maxLat+1) * time.Second)
			synctest.Wait()
			left = transportGoroutines()
		}
		for _, rp := range r.replies {
			mut := b2i(!reflect.DeepEqual(rp.hdr, rp.snap))
			rmut := b2i(!reflect.DeepEqual(rp.req.Header, rp.rsnp) || rp.req.URL.String() != rp.rurl)
			bmut := 0
			if rp.held != nil {
				got, err := io.ReadAll(rp.held)
				rp.held.Close()
				bmut = b2i(err != nil || string(got) != string(rp.want))
			}
			if mut == 1 || rmut == 1 || bmut == 1 {
				log.Emit(M{"ev": "mut", "x": rp.x, "resp": mut, "req": rmut, "body": bmut, "t": w.now()})
			}
		}
		for _, c := range r.cancels {
			c()
		}
		nk, mi := r.conn.stats()
		log.Emit(M{"ev": "end", "scn": sc.ID, "t": w.now(), "leak": left, "leak_at_horizon": leftT, "horizon": horizon, "nkeys": nk, "maxidx": mi})
		log.Flush()
		_ = filepath.Join
	})
}

func swrEffective(o Opt) int {
	if o.Swr > 0 {
		return o.Swr
	}
	return 5000
}
