module verif/harness

go 1.25

require github.com/bartventer/httpcache v0.0.0

replace github.com/bartventer/httpcache => /repo
