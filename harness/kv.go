package harness

import (
	"sync/atomic"
	"bytes"
	"crypto/sha256"
	"encoding/base64"
	"encoding/json"
	"errors"
	"fmt"
	"io"
	"math/rand"
	"net/http"
	"net/http/httptest"
	"net/url"
	"os"
	"path/filepath"
	"os/exec"
	"sort"
	"strings"
	"sync"
	"time"

	"github.com/bartventer/httpcache"
	"github.com/bartventer/httpcache/store"
	"github.com/bartventer/httpcache/store/driver"
	"github.com/bartventer/httpcache/store/expapi"
	"github.com/bartventer/httpcache/store/fscache"
	"github.com/bartventer/httpcache/store/memcache"
)

// KVScenario is a sequence of operations on one backend (C14, C17).
type KVScenario struct {
	ID      string   `json:"id"`
	Backend string   `json:"backend"` // mem | fs | fsenc
	Keys    []string `json:"keys"`    // base64 (std) of the key bytes
	Vals    []KVVal  `json:"vals"`
	Ops     []KVOp   `json:"ops"`
}

type KVVal struct {
	Len  int   `json:"len"`
	Seed int64 `json:"seed"`
}

type KVOp struct {
	Op  string `json:"op"` // set get del keys reopen tamper api_get api_del api_list reopen_wrongkey reopen_plain set_cut set_kill open_enc
	Cut int    `json:"cut"` // set_cut: the file size limit in bytes; set_kill: the step at which the writer kills itself (-1: random instant)
	Sched []SchedStep `json:"sched"` // sched: the schedule to replay; writer i sets value i-1
	Reads []int       `json:"reads"` // sched: what the model says each reader gets (0 = absent, i = writer i's value)
	N     int         `json:"n"`     // stress: number of writers / readers; duration in ms is Cut
	K   int    `json:"k"`
	V   int    `json:"v"`
	P   int    `json:"p"`   // keys: key id whose bytes are the prefix (-1: empty prefix)
	How string `json:"how"` // tamper: flip | trunc | extend | swap
	Pos int    `json:"pos"`
	K2  int    `json:"k2"` // tamper swap: the other key
}

const encKey2 = "AAECAwQFBgcICQoLDA0ODxAREhMUFRYXGBkaGxwdHh8="

type kvRunner struct {
	sc    *KVScenario
	log   *EventLog
	dir   string
	conn  driver.Conn
	keys  [][]byte
	vals  [][]byte
	sums  map[[32]byte]int
	name  string
	srv   *httptest.Server
	enc   string
}

func genVal(v KVVal) []byte {
	r := rand.New(rand.NewSource(v.Seed*7919 + int64(v.Len)))
	b := make([]byte, v.Len)
	r.Read(b)
	// recognisable 16-byte windows for the plaintext search
	for i := 0; i+16 <= len(b); i += 64 {
		copy(b[i:], fmt.Sprintf("PLAIN%011d", v.Seed%100000000000))
	}
	return b
}

func (r *kvRunner) open(mode string) error {
	var c driver.Conn
	var err error
	switch r.sc.Backend {
	case "mem":
		if r.conn != nil {
			return nil // a memory store has nothing to reopen
		}
		c = memcache.Open()
	case "fs":
		c, err = fscache.Open("kv", fscache.WithBaseDir(r.dir))
	case "fsenc":
		key := encKey
		if mode == "wrongkey" {
			key = encKey2
		}
		if mode == "plain" {
			c, err = fscache.Open("kv", fscache.WithBaseDir(r.dir))
		} else {
			c, err = fscache.Open("kv", fscache.WithBaseDir(r.dir), fscache.WithEncryption(key))
		}
	}
	if err != nil {
		return err
	}
	r.conn = c
	registerConn(r.name, c)
	return nil
}

func (r *kvRunner) identify(b []byte) (int, int) {
	if id, ok := r.sums[sha256.Sum256(b)]; ok {
		return id, 0
	}
	for _, v := range r.vals {
		if len(b) < len(v) && bytes.Equal(v[:len(b)], b) {
			return -2, 1 // a strict prefix of a known value: a torn value
		}
	}
	return -1, 0
}

func (r *kvRunner) keyID(k string) int {
	for i, kk := range r.keys {
		if string(kk) == k {
			return i
		}
	}
	return -1
}

// files returns every regular file under the store directory
func (r *kvRunner) files() []string {
	var out []string
	filepath.Walk(r.dir, func(p string, info os.FileInfo, err error) error {
		if err == nil && info.Mode().IsRegular() {
			out = append(out, p)
		}
		return nil
	})
	sort.Strings(out)
	return out
}

func plainOnDisk(files []string, val []byte) int {
	n := 0
	for _, f := range files {
		b, err := os.ReadFile(f)
		if err != nil {
			continue
		}
		for i := 0; i+16 <= len(val); i += 64 {
			if bytes.Contains(b, val[i:i+16]) {
				n++
				break
			}
		}
		if len(val) >= 8 && len(val) < 16 && bytes.Contains(b, val) {
			n++
		}
	}
	return n
}

func RunKV(sc *KVScenario, log *EventLog, workDir string) error {
	r := &kvRunner{sc: sc, log: log, sums: map[[32]byte]int{}, name: fmt.Sprintf("kv%d-%d", os.Getpid(), log.seq)}
	for _, k := range sc.Keys {
		b, err := base64.StdEncoding.DecodeString(k)
		if err != nil {
			return err
		}
		r.keys = append(r.keys, b)
	}
	canon := make([]int, len(sc.Vals)) // values with equal bytes are one value
	for i, v := range sc.Vals {
		b := genVal(v)
		r.vals = append(r.vals, b)
		if j, ok := r.sums[sha256.Sum256(b)]; ok {
			canon[i] = j
		} else {
			r.sums[sha256.Sum256(b)] = i
			canon[i] = i
		}
	}
	if sc.Backend != "mem" {
		d, err := os.MkdirTemp(workDir, "kv")
		if err != nil {
			return err
		}
		r.dir = d
		defer os.RemoveAll(d)
	}
	// prefix relation between keys, by construction
	pre := [][]int{}
	for i, a := range r.keys {
		for j, b := range r.keys {
			if bytes.HasPrefix(b, a) {
				pre = append(pre, []int{i, j})
			}
		}
	}
	log.Emit(M{"ev": "reset", "scn": sc.ID, "backend": sc.Backend, "enc": b2i(sc.Backend == "fsenc"), "nkeys": len(r.keys),
		"lister": b2i(sc.Backend != "mem"), "pre": pre, "grp": "", "spv": 0, "gk": "", "swr": 0, "t": 0})
	if err := r.open(""); err != nil {
		return err
	}
	defer unregisterConn(r.name)
	mux := http.NewServeMux()
	expapi.Register(expapi.WithServeMux(mux))
	r.srv = httptest.NewServer(mux)
	defer r.srv.Close()
	type heldGet struct {
		k   int
		b   []byte
		sum [32]byte
	}
	var held []heldGet // results of earlier Gets the caller still holds: nothing the store does later may change them
	lastFileOf := map[int]string{} // key -> file whose content changed at its last Set (found by directory diff)
	lastVal := map[int]int{}
	cleanOf := map[int][]byte{}      // key -> the bytes of that file as the store wrote them
	rtClean := map[string][]byte{}   // files the transport wrote last -> their bytes as written
	sameBytes := func(f string, want []byte) bool {
		b, err := os.ReadFile(f)
		return err == nil && bytes.Equal(b, want)
	}
	// which keys' files (and the transport's files) are, byte for byte, what the store wrote: two modifications can cancel out
	cleanState := func(ev M) {
		ck := []int{}
		for k, f := range lastFileOf {
			if want, ok := cleanOf[k]; ok && sameBytes(f, want) {
				ck = append(ck, k)
			}
		}
		sort.Ints(ck)
		ev["cleank"] = ck
		rc := 1
		for f, want := range rtClean {
			if !sameBytes(f, want) {
				rc = 0
			}
		}
		ev["rtclean"] = rc
	}

	for i := range sc.Ops {
		op := &sc.Ops[i]
		ev := M{"ev": "kv", "op": op.Op, "k": op.K, "v": canon[op.V], "p": op.P, "ok": 0, "nx": 0, "rv": -1, "torn": 0, "keys": []int{},
			"unknown": 0, "alias": 0, "st": 0, "plain": 0, "samect": 0, "how": op.How, "k2": op.K2, "errs": "", "expect": 0, "cut": op.Cut,
			"cleank": []int{}, "rtclean": 1}
		switch op.Op {
		case "set":
			before := snapshotFiles(r.files())
			val := append([]byte(nil), r.vals[op.V]...)
			err := r.conn.Set(string(r.keys[op.K]), val)
			ev["ok"] = b2i(err == nil)
			if err != nil {
				ev["errs"] = err.Error()
			}
			// caller-buffer isolation: scribble over the buffer that was passed in
			for j := range val {
				val[j] ^= 0xff
			}
			if r.dir != "" {
				after := r.files()
				f, nchanged := changedFile(before, after)
				if f != "" {
					lastFileOf[op.K] = f
				}
				if f2 := lastFileOf[op.K]; f2 != "" && err == nil {
					if b, e := os.ReadFile(f2); e == nil {
						cleanOf[op.K] = b
					}
				}
				// the same value written again under the same key must give a different ciphertext
				if pv, ok := lastVal[op.K]; ok && pv == op.V && err == nil && sc.Backend == "fsenc" && nchanged == 0 {
					ev["samect"] = 1
				}
				if err == nil {
					lastVal[op.K] = op.V
				}
				if sc.Backend == "fsenc" {
					// only what this operation wrote: an earlier phase without encryption may have left plaintext behind
					ev["plain"] = plainOnDisk(changedFiles(before, after), r.vals[op.V])
				}
			}
		case "get":
			b, err := r.conn.Get(string(r.keys[op.K]))
			ev["ok"] = b2i(err == nil)
			ev["nx"] = b2i(errors.Is(err, driver.ErrNotExist))
			if err == nil {
				ev["rv"], ev["torn"] = r.identify(b)
				// isolation: mutate what was returned and read again
				for j := range b {
					b[j] ^= 0xff
				}
				b2, err2 := r.conn.Get(string(r.keys[op.K]))
				if err2 == nil {
					id2, _ := r.identify(b2)
					ev["alias"] = b2i(id2 != ev["rv"].(int))
					held = append(held, heldGet{op.K, b2, sha256.Sum256(b2)})
				}
				// what earlier Gets returned is still what it was
				for _, h := range held {
					if sha256.Sum256(h.b) != h.sum {
						ev["alias"] = 1
					}
				}
			} else {
				ev["errs"] = err.Error()
			}
		case "del":
			err := r.conn.Delete(string(r.keys[op.K]))
			ev["ok"] = b2i(err == nil)
			ev["nx"] = b2i(errors.Is(err, driver.ErrNotExist))
			if err != nil {
				ev["errs"] = err.Error()
			}
		case "keys":
			kl, ok := r.conn.(expapi.KeyLister)
			if !ok {
				ev["st"] = 501
				break
			}
			prefix := ""
			if op.P >= 0 {
				prefix = string(r.keys[op.P])
			}
			ks, err := kl.Keys(prefix)
			ev["ok"] = b2i(err == nil)
			if err != nil {
				ev["errs"] = err.Error()
			}
			ids, unk := []int{}, 0
			for _, k := range ks {
				if id := r.keyID(k); id >= 0 {
					ids = append(ids, id)
				} else {
					unk++
				}
			}
			sort.Ints(ids)
			ev["keys"], ev["unknown"] = ids, unk
		case "reopen", "reopen_wrongkey", "reopen_plain":
			mode := strings.TrimPrefix(strings.TrimPrefix(op.Op, "reopen"), "_")
			err := r.open(mode)
			ev["ok"] = b2i(err == nil)
			if err != nil {
				ev["errs"] = err.Error()
			}
		case "tamper":
			f := lastFileOf[op.K]
			if f == "" {
				ev["errs"] = "no file known for key"
				break
			}
			b, err := os.ReadFile(f)
			if err != nil {
				ev["errs"] = err.Error()
				break
			}
			switch op.How {
			case "flip":
				if len(b) > 0 {
					b[op.Pos%len(b)] ^= 1 << uint(op.Pos%8)
				}
			case "trunc":
				if len(b) > 0 {
					b = b[:op.Pos%len(b)]
				}
			case "extend":
				b = append(b, byte(op.Pos), 0x00, 0x41)
			case "swap":
				if f2 := lastFileOf[op.K2]; f2 != "" {
					b, _ = os.ReadFile(f2)
				}
			}
			ev["ok"] = b2i(os.WriteFile(f, b, 0o644) == nil)
			cleanState(ev)
		case "tamper_all":
			// every file under the store directory is damaged
			n := 0
			for _, f := range r.files() {
				b, err := os.ReadFile(f)
				if err != nil {
					continue
				}
				switch op.How {
				case "flip":
					if len(b) > 0 {
						b[op.Pos%len(b)] ^= 1 << uint(op.Pos%8)
					}
				case "trunc":
					if len(b) > 0 {
						b = b[:op.Pos%len(b)]
					}
				default:
					b = append(b, byte(op.Pos), 0x00, 0x41)
				}
				if os.WriteFile(f, b, 0o644) == nil {
					n++
				}
			}
			ev["ok"] = 1
			ev["st"] = n
			cleanState(ev)
		case "rt_store", "rt_get":
			// the transport on top of the store as it is open now: a cacheable response whose body is the value
			// (rt_store) or a response nobody has seen before (rt_get: value id 100 + position of the operation)
			body := []byte(fmt.Sprintf("FRESH-BODY-%d-%s", i, sc.ID))
			if op.Op == "rt_store" {
				body = r.vals[op.V]
			}
			calls := 0
			up := rtFunc(func(req *http.Request) (*http.Response, error) {
				calls++
				h := http.Header{}
				h.Set("Cache-Control", "max-age=100000")
				h.Set("Date", time.Now().UTC().Format(http.TimeFormat))
				h.Set("Content-Type", "application/octet-stream")
				return &http.Response{StatusCode: 200, Status: "200 OK", Proto: "HTTP/1.1", ProtoMajor: 1, ProtoMinor: 1, Header: h,
					Body: io.NopCloser(bytes.NewReader(body)), ContentLength: int64(len(body)), Request: req}, nil
			})
			before := snapshotFiles(r.files())
			tr := httpcache.NewTransport("verif://"+r.name, httpcache.WithUpstream(up))
			u := "http://rt.example/resource"
			req, _ := http.NewRequest(http.MethodGet, u, nil)
			if op.Op == "rt_store" {
				req.Header.Set("Cache-Control", "no-cache") // whatever is stored, this one comes from the origin
			}
			resp, err := tr.RoundTrip(req)
			if err != nil {
				ev["errs"] = err.Error()
				break
			}
			got, rerr := io.ReadAll(resp.Body)
			resp.Body.Close()
			ev["ok"] = b2i(rerr == nil && resp.StatusCode == 200)
			ev["st"] = calls
			ev["rv"], ev["torn"] = r.identify(got)
			if strings.HasPrefix(string(got), "FRESH-BODY-") {
				var j int
				fmt.Sscanf(string(got), "FRESH-BODY-%d-", &j)
				ev["rv"] = 100 + j
			}
			if r.dir != "" {
				wrote := changedFiles(before, r.files())
				if len(wrote) > 0 { // what the transport has stored now
					rtClean = map[string][]byte{}
					for _, f := range wrote {
						if b, e := os.ReadFile(f); e == nil {
							rtClean[f] = b
						}
					}
				}
				if op.Op == "rt_store" && sc.Backend == "fsenc" {
					ev["plain"] = plainOnDisk(wrote, r.vals[op.V])
				}
			}
		case "api_get", "api_del":
			method := http.MethodGet
			if op.Op == "api_del" {
				method = http.MethodDelete
			}
			u := r.srv.URL + "/debug/httpcache/" + url.PathEscape(string(r.keys[op.K])) + "?dsn=" + url.QueryEscape("verif://"+r.name)
			req, err := http.NewRequest(method, u, nil)
			if err != nil {
				ev["errs"] = err.Error()
				break
			}
			resp, err := http.DefaultClient.Do(req)
			if err != nil {
				ev["errs"] = err.Error()
				break
			}
			body, _ := io.ReadAll(resp.Body)
			resp.Body.Close()
			ev["st"] = resp.StatusCode
			ev["ok"] = b2i(resp.StatusCode/100 == 2)
			ev["nx"] = b2i(resp.StatusCode == 404)
			if op.Op == "api_get" && resp.StatusCode == 200 {
				ev["rv"], ev["torn"] = r.identify(body)
			}
		case "set_slow":
			// the write is slower than the operation timeout of the store: Set gives up, the caller reuses its buffer,
			// the write goes on in the background (step hooks of fscache hold it at op.How)
			if !hooksAvailable || r.dir == "" {
				ev["errs"] = "no hooks"
				break
			}
			tmo := 30 * time.Millisecond
			if op.How == "tiny" {
				// no hold at all: a timeout so short that Set returns before its writer has got anywhere,
				// and the caller's buffer changes while the store may still be taking the value over
				tmo = time.Nanosecond
			}
			opts := []fscache.Option{fscache.WithBaseDir(r.dir), fscache.WithTimeout(tmo)}
			if sc.Backend == "fsenc" {
				opts = append(opts, fscache.WithEncryption(encKey))
			}
			c2, err := fscache.Open("kv", opts...)
			if err != nil {
				ev["errs"] = err.Error()
				break
			}
			point := op.How
			if point == "" {
				point = "set:begin"
			}
			key := string(r.keys[op.K])
			released, finished := make(chan struct{}), make(chan struct{}, 4)
			setFsHook(func(p, k string) {
				if k != key {
					return
				}
				if p == point {
					<-released
				}
				if p == "set:renamed" {
					finished <- struct{}{}
				}
			})
			buf := append([]byte(nil), r.vals[op.V]...)
			err = c2.Set(key, buf)
			ev["ok"] = b2i(err == nil)
			if err != nil {
				ev["errs"] = err.Error()
			}
			for j := range buf {
				buf[j] ^= 0xff
			}
			close(released)
			select {
			case <-finished:
			case <-time.After(2 * time.Second):
			}
			time.Sleep(20 * time.Millisecond)
			setFsHook(nil)
		case "set_cut", "set_kill":
			// the write happens in a child process that is cut short (file size limit) or killed
			mode := "cut"
			if op.Op == "set_kill" {
				mode = "kill"
			}
			cmd := exec.Command(os.Args[0], "-test.run", "^TestKVChild$")
			cmd.Env = append(os.Environ(), "VERIF_CHILD="+mode, "VERIF_CHILD_DIR="+r.dir, "VERIF_CHILD_ENC="+fmt.Sprint(b2i(sc.Backend == "fsenc")),
				"VERIF_CHILD_KEY="+base64.StdEncoding.EncodeToString(r.keys[op.K]), fmt.Sprintf("VERIF_CHILD_VAL=%d:%d", sc.Vals[op.V].Len, sc.Vals[op.V].Seed),
				fmt.Sprintf("VERIF_CHILD_CUT=%d", op.Cut))
			outb, err := cmd.CombinedOutput()
			code := 0
			if err != nil {
				code = -1
				if ee, ok := err.(*exec.ExitError); ok {
					code = ee.ExitCode()
				}
			}
			ev["ok"] = b2i(code == 0 && strings.Contains(string(outb), "CHILD-SET-OK"))
			ev["st"] = code
			if code != 0 && code != 3 && code != -1 {
				ev["errs"] = string(outb)
			}
		case "open_enc":
			sub, _ := os.MkdirTemp(r.dir, "enc")
			var c driver.Conn
			var err error
			expect := 0
			os.Unsetenv("FSCACHE_ENCRYPT_KEY")
			dsn := func(q string) string { return "fscache://" + sub + "?appname=e&" + q }
			switch op.How {
			case "opt_ok":
				expect = 1
				c, err = fscache.Open("e", fscache.WithBaseDir(sub), fscache.WithEncryption(encKey))
			case "opt_empty":
				c, err = fscache.Open("e", fscache.WithBaseDir(sub), fscache.WithEncryption(""))
			case "opt_badb64":
				c, err = fscache.Open("e", fscache.WithBaseDir(sub), fscache.WithEncryption("not base64 !!"))
			case "opt_short":
				c, err = fscache.Open("e", fscache.WithBaseDir(sub), fscache.WithEncryption("c2hvcnQ="))
			case "opt_15bytes":
				c, err = fscache.Open("e", fscache.WithBaseDir(sub), fscache.WithEncryption("AAECAwQFBgcICQoLDA0O"))
			case "dsn_ok":
				expect = 1
				c, err = store.Open(dsn("encrypt=on&encrypt_key=" + url.QueryEscape(encKey)))
			case "dsn_aesgcm_ok":
				expect = 1
				c, err = store.Open(dsn("encrypt=aesgcm&encrypt_key=" + url.QueryEscape(encKey)))
			case "dsn_nokey":
				c, err = store.Open(dsn("encrypt=on"))
			case "dsn_aesgcm_nokey":
				c, err = store.Open(dsn("encrypt=aesgcm"))
			case "dsn_badkey":
				c, err = store.Open(dsn("encrypt=on&encrypt_key=%21%21%21"))
			case "dsn_shortkey":
				c, err = store.Open(dsn("encrypt=on&encrypt_key=c2hvcnQ%3D"))
			case "dsn_env_ok":
				expect = 1
				os.Setenv("FSCACHE_ENCRYPT_KEY", encKey)
				c, err = store.Open(dsn("encrypt=on"))
			case "dsn_env_empty":
				os.Setenv("FSCACHE_ENCRYPT_KEY", "")
				c, err = store.Open(dsn("encrypt=on"))
			case "dsn_env_bad":
				os.Setenv("FSCACHE_ENCRYPT_KEY", "zzz")
				c, err = store.Open(dsn("encrypt=aesgcm"))
			default:
				// "<way>_len:<n>": a key of n bytes; only 16, 24 and 32 are AES key sizes
				var n int
				way := op.How[:3]
				fmt.Sscanf(op.How[strings.Index(op.How, ":")+1:], "%d", &n)
				kb := make([]byte, n)
				for i := range kb {
					kb[i] = byte(i*7 + 1)
				}
				k64 := base64.URLEncoding.EncodeToString(kb)
				if n == 16 || n == 24 || n == 32 {
					expect = 1
				}
				switch way {
				case "opt":
					c, err = fscache.Open("e", fscache.WithBaseDir(sub), fscache.WithEncryption(k64))
				case "dsn":
					c, err = store.Open(dsn("encrypt=on&encrypt_key=" + url.QueryEscape(k64)))
				default:
					os.Setenv("FSCACHE_ENCRYPT_KEY", k64)
					c, err = store.Open(dsn("encrypt=aesgcm"))
				}
			}
			os.Unsetenv("FSCACHE_ENCRYPT_KEY")
			ev["expect"] = expect
			ev["ok"] = b2i(err == nil && c != nil)
			if err != nil {
				ev["errs"] = err.Error()
			}
			if err == nil && c != nil {
				_ = c.Set("probe-key", r.vals[op.V])
				var files []string
				filepath.Walk(sub, func(p string, info os.FileInfo, e error) error {
					if e == nil && info.Mode().IsRegular() {
						files = append(files, p)
					}
					return nil
				})
				ev["plain"] = plainOnDisk(files, r.vals[op.V])
				if len(files) == 0 {
					ev["plain"] = 1 // nothing written at all is not "stored encrypted" either
				}
			}
		case "sched":
			// one FsAtomic schedule replayed by gating the processes at the step hooks
			values := map[int][]byte{}
			for i := range r.vals {
				values[i+1] = r.vals[i]
			}
			reads, nxs, errs, final, finalNX := runSchedule(r.conn, string(r.keys[op.K]), values, op.Sched)
			torn, unk, diff := 0, 0, 0
			got := []int{}
			for ri := 1; ri <= len(op.Reads); ri++ {
				g := -9
				if nxs[ri] {
					g = 0
				} else if b, ok := reads[ri]; ok {
					id, t := r.identify(b)
					torn += t
					if id < 0 {
						unk++
					}
					g = id + 1
				}
				got = append(got, g)
				if g != op.Reads[ri-1] {
					diff++
				}
			}
			if !finalNX {
				id, t := r.identify(final)
				torn += t
				if id < 0 {
					unk++
				}
			}
			ev["ok"] = b2i(len(errs) == 0)
			ev["torn"], ev["unknown"], ev["keys"], ev["st"] = torn, unk, got, diff
			if len(errs) > 0 {
				ev["errs"] = strings.Join(errs, "; ")
			}
		case "encstress":
			// concurrent Sets of one value under different keys on the encrypted backend: every
			// ciphertext (and nonce) must differ and every entry must stay readable
			var wg sync.WaitGroup
			stop := make(chan struct{})
			// learn which file belongs to which key (one sequential Set each, directory diff)
			fileOf := map[int]string{}
			for wi := 0; wi < op.N && wi < len(r.keys); wi++ {
				before := snapshotFiles(r.files())
				_ = r.conn.Set(string(r.keys[wi]), r.vals[op.V])
				if f, n := changedFile(before, r.files()); n == 1 {
					fileOf[wi] = f
				}
			}
			var smu sync.Mutex
			nonces := map[string]int{}
			bad := 0
			for wi := 0; wi < op.N && wi < len(r.keys); wi++ {
				wg.Add(1)
				go func(wi int) {
					defer wg.Done()
					for {
						select {
						case <-stop:
							return
						default:
						}
						_ = r.conn.Set(string(r.keys[wi]), append([]byte(nil), r.vals[op.V]...))
						// nobody else writes this key: what was just set must be readable, under a nonce of its own
						b, err := r.conn.Get(string(r.keys[wi]))
						raw, _ := os.ReadFile(fileOf[wi])
						smu.Lock()
						if err != nil || !bytes.Equal(b, r.vals[op.V]) {
							bad++
						}
						if len(raw) >= 12 {
							nonces[string(raw[:12])]++
						}
						smu.Unlock()
					}
				}(wi)
			}
			time.Sleep(time.Duration(op.Cut) * time.Millisecond)
			close(stop)
			wg.Wait()
			same := 0
			for _, n := range nonces {
				if n > 1 {
					same++
				}
			}
			ev["samect"] = b2i(same > 0)
			ev["ok"] = b2i(bad == 0)
			ev["st"] = bad
		case "stress":
			// free-running writers alternating two values, readers and a deleter on one key
			key := string(r.keys[op.K])
			stop := make(chan struct{})
			var wg sync.WaitGroup
			var mu sync.Mutex
			gets, torn, unk, gerr, serr, absent := 0, 0, 0, 0, 0, 0
			var stored atomic.Bool // some Set of this round has returned success
			conns := []driver.Conn{r.conn}
			if (op.How == "two" || op.How == "mtime") && r.dir != "" {
				// a second handle on the same directory (another component of the same process);
				// "mtime": that handle touches the file on every hit (update_mtime=on), the readers go through it
				opts := []fscache.Option{fscache.WithBaseDir(r.dir), fscache.WithUpdateMTime(op.How == "mtime")}
				if sc.Backend == "fsenc" {
					opts = append(opts, fscache.WithEncryption(encKey))
				}
				if c2, err := fscache.Open("kv", opts...); err == nil {
					conns = append(conns, c2)
				}
			}
			for wi := 0; wi < op.N; wi++ {
				wg.Add(1)
				go func(wi int) {
					defer wg.Done()
					for j := 0; ; j++ {
						select {
						case <-stop:
							return
						default:
						}
						if err := conns[wi%len(conns)].Set(key, append([]byte(nil), r.vals[(wi+j)%len(r.vals)]...)); err != nil {
							mu.Lock()
							serr++
							mu.Unlock()
						} else {
							stored.Store(true)
						}
					}
				}(wi)
				wg.Add(1)
				go func() {
					defer wg.Done()
					for {
						select {
						case <-stop:
							return
						default:
						}
						had := stored.Load() // read before the Get begins: the Set had completed by then
						b, err := conns[len(conns)-1].Get(key)
						mu.Lock()
						gets++
						if had && op.P != 1 && errors.Is(err, driver.ErrNotExist) {
							absent++ // nobody deletes in this round: the key cannot be absent after a completed Set
						}
						if err == nil {
							id, t := r.identify(b)
							torn += t
							if id < 0 && t == 0 {
								unk++
							}
						} else if !errors.Is(err, driver.ErrNotExist) {
							gerr++
						}
						mu.Unlock()
					}
				}()
			}
			if op.P == 1 {
				wg.Add(1)
				go func() {
					defer wg.Done()
					for {
						select {
						case <-stop:
							return
						default:
						}
						_ = r.conn.Delete(key)
						time.Sleep(200 * time.Microsecond)
					}
				}()
			}
			time.Sleep(time.Duration(op.Cut) * time.Millisecond)
			close(stop)
			wg.Wait()
			ev["ok"] = b2i(serr == 0)
			ev["torn"], ev["unknown"], ev["st"], ev["rv"] = torn, unk, gerr, gets
			ev["absent"] = absent
		case "api_list":
			prefix := ""
			if op.P >= 0 {
				prefix = string(r.keys[op.P])
			}
			u := r.srv.URL + "/debug/httpcache?dsn=" + url.QueryEscape("verif://"+r.name) + "&prefix=" + url.QueryEscape(prefix)
			resp, err := http.Get(u)
			if err != nil {
				ev["errs"] = err.Error()
				break
			}
			var out struct {
				Keys []string `json:"keys"`
			}
			body, _ := io.ReadAll(resp.Body)
			resp.Body.Close()
			ev["st"] = resp.StatusCode
			ev["ok"] = b2i(resp.StatusCode == 200 && json.Unmarshal(body, &out) == nil)
			ids, unk := []int{}, 0
			for _, k := range out.Keys {
				if id := r.keyID(k); id >= 0 {
					ids = append(ids, id)
				} else {
					unk++
				}
			}
			sort.Ints(ids)
			ev["keys"], ev["unknown"] = ids, unk
		}
		log.Emit(ev)
	}
	log.Emit(M{"ev": "end", "scn": sc.ID, "t": 0, "leak": 0, "leak_at_horizon": 0, "nkeys": 0, "maxidx": 0})
	log.Flush()
	return nil
}

func snapshotFiles(files []string) map[string][]byte {
	m := map[string][]byte{}
	for _, f := range files {
		if b, err := os.ReadFile(f); err == nil {
			m[f] = b
		}
	}
	return m
}

// changedFile finds the one file that is new or whose bytes differ, and how many did
func changedFile(before map[string][]byte, after []string) (string, int) {
	found, n := "", 0
	for _, f := range after {
		b, err := os.ReadFile(f)
		if err != nil {
			continue
		}
		if old, ok := before[f]; !ok || !bytes.Equal(old, b) {
			n++
			found = f
		}
	}
	if n != 1 {
		return "", n
	}
	return found, 1
}

func changedFiles(before map[string][]byte, after []string) []string {
	var out []string
	for _, f := range after {
		b, err := os.ReadFile(f)
		if err != nil {
			continue
		}
		if old, ok := before[f]; !ok || !bytes.Equal(old, b) {
			out = append(out, f)
		}
	}
	return out
}

type rtFunc func(*http.Request) (*http.Response, error)

func (f rtFunc) RoundTrip(r *http.Request) (*http.Response, error) { return f(r) }
