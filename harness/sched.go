package harness

import (
	"bytes"
	"errors"
	"regexp"
	"runtime"
	"strconv"
	"sync"
	"time"

	"github.com/bartventer/httpcache/store/driver"
)

// Gate-scheduled replay of FsAtomic schedules (C15): every process (a Set, Get or
// Delete on one key) runs in its own goroutine and is stopped at the step hooks of
// fscache; the scheduler releases one process for one step at a time, in the order
// the TLA+ model produced.

type SchedStep struct {
	P string `json:"p"` // w | r | d
	I int    `json:"i"`
}

type proc struct {
	name   string
	start  func()
	goCh   chan struct{}
	atCh   chan string
	done   chan struct{}
	parent uint64
	began  bool
	fin    bool
	res    []byte
	err    error
}

var createdByRe = regexp.MustCompile(`in goroutine (\d+)`)

// callerGid: fscache runs every operation in a goroutine of its own; the process
// is the goroutine that called Set / Get / Delete, i.e. the creator of the current one.
func callerGid() uint64 {
	buf := make([]byte, 8192)
	n := runtime.Stack(buf, false)
	lines := bytes.Split(bytes.TrimSpace(buf[:n]), []byte("\n"))
	for i := len(lines) - 1; i >= 0 && i >= len(lines)-3; i-- {
		if m := createdByRe.FindSubmatch(lines[i]); m != nil {
			id, _ := strconv.ParseUint(string(m[1]), 10, 64)
			return id
		}
	}
	return 0
}

// runSchedule replays one schedule; values[i] is what writer i sets. It returns the
// bytes every reader got (nil = key absent) and the final content.
func runSchedule(conn driver.Conn, key string, values map[int][]byte, sched []SchedStep) (reads map[int][]byte, nx map[int]bool, errs []string, final []byte, finalNX bool) {
	procs := map[string]*proc{}
	var mu sync.Mutex
	byParent := map[uint64]*proc{}
	setFsHook(func(point, k string) {
		if k != key {
			return
		}
		mu.Lock()
		p := byParent[callerGid()]
		mu.Unlock()
		if p == nil {
			return
		}
		p.atCh <- point
		<-p.goCh
	})
	defer setFsHook(nil)
	mk := func(name string, body func(p *proc)) *proc {
		p := &proc{name: name, goCh: make(chan struct{}), atCh: make(chan string, 1), done: make(chan struct{})}
		p.start = func() {
			ready := make(chan struct{})
			go func() {
				mu.Lock()
				byParent[gid()] = p
				mu.Unlock()
				close(ready)
				body(p)
				close(p.done)
			}()
			<-ready
		}
		procs[name] = p
		return p
	}
	reads, nx = map[int][]byte{}, map[int]bool{}
	var rmu sync.Mutex
	waitStep := func(p *proc) {
		select {
		case <-p.atCh:
		case <-p.done:
			p.fin = true
		case <-time.After(20 * time.Second):
			errs = append(errs, "process "+p.name+" did not reach its next step")
			p.fin = true
		}
	}
	for _, st := range sched {
		name := st.P + strconv.Itoa(st.I)
		p := procs[name]
		if p == nil {
			i := st.I
			switch st.P {
			case "w":
				p = mk(name, func(p *proc) { p.err = conn.Set(key, append([]byte(nil), values[i]...)) })
			case "r":
				p = mk(name, func(p *proc) {
					b, err := conn.Get(key)
					rmu.Lock()
					if err == nil {
						reads[i] = b
					} else if errors.Is(err, driver.ErrNotExist) {
						nx[i] = true
					} else {
						p.err = err
					}
					rmu.Unlock()
				})
			default:
				p = mk(name, func(p *proc) { _ = conn.Delete(key) })
			}
		}
		if p.fin {
			continue
		}
		if !p.began {
			p.began = true
			p.start()
		} else {
			p.goCh <- struct{}{}
		}
		waitStep(p)
	}
	// let everybody finish
	for _, p := range procs {
		for p.began && !p.fin {
			select {
			case p.goCh <- struct{}{}:
			case <-p.done:
				p.fin = true
			case <-p.atCh:
			case <-time.After(20 * time.Second):
				errs = append(errs, "process "+p.name+" hangs at the end")
				p.fin = true
			}
		}
		if p.err != nil {
			errs = append(errs, p.name+": "+p.err.Error())
		}
	}
	b, err := conn.Get(key)
	if err != nil {
		finalNX = errors.Is(err, driver.ErrNotExist)
		if !finalNX {
			errs = append(errs, "final get: "+err.Error())
		}
	}
	return reads, nx, errs, b, finalNX
}
