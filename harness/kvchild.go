package harness

import (
	"encoding/base64"
	"fmt"
	"os"
	"os/signal"
	"strconv"
	"strings"
	"syscall"
	"time"

	"github.com/bartventer/httpcache/store/fscache"
)

// kvChild performs one Set in its own process so that the write can be cut
// short by RLIMIT_FSIZE or the process can die in the middle of it.
func kvChild(mode string) {
	dir := os.Getenv("VERIF_CHILD_DIR")
	key, _ := base64.StdEncoding.DecodeString(os.Getenv("VERIF_CHILD_KEY"))
	parts := strings.Split(os.Getenv("VERIF_CHILD_VAL"), ":")
	n, _ := strconv.Atoi(parts[0])
	seed, _ := strconv.ParseInt(parts[1], 10, 64)
	cut, _ := strconv.Atoi(os.Getenv("VERIF_CHILD_CUT"))
	val := genVal(KVVal{Len: n, Seed: seed})
	opts := []fscache.Option{fscache.WithBaseDir(dir)}
	if os.Getenv("VERIF_CHILD_ENC") == "1" {
		opts = append(opts, fscache.WithEncryption(encKey))
	}
	c, err := fscache.Open("kv", opts...)
	if err != nil {
		fmt.Println("CHILD-OPEN-FAILED", err)
		os.Exit(4)
	}
	switch mode {
	case "cut":
		signal.Ignore(syscall.SIGXFSZ)
		lim := syscall.Rlimit{Cur: uint64(cut), Max: uint64(cut)}
		if err := syscall.Setrlimit(syscall.RLIMIT_FSIZE, &lim); err != nil {
			fmt.Println("CHILD-RLIMIT-FAILED", err)
			os.Exit(4)
		}
	case "kill":
		if cut >= 0 && hooksAvailable {
			step := 0
			setFsHook(func(point, k string) {
				if step == cut {
					syscall.Kill(os.Getpid(), syscall.SIGKILL)
					time.Sleep(time.Second)
				}
				step++
			})
		} else {
			go func() {
				time.Sleep(time.Duration(seed%3000) * time.Microsecond)
				syscall.Kill(os.Getpid(), syscall.SIGKILL)
			}()
		}
	}
	if err := c.Set(string(key), val); err != nil {
		fmt.Println("CHILD-SET-FAILED", err)
		os.Exit(3)
	}
	fmt.Println("CHILD-SET-OK")
	os.Exit(0)
}
