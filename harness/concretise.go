package harness

import (
	"fmt"
	"math/rand"
	"net/http"
	"strconv"
	"strings"
	"time"
)

// Selecting header fields (index -> name) and their value classes. Spellings
// inside one class are equivalent under the cache's documented normalisation
// (whitespace around list separators, list order, q=1 default); different
// classes differ in meaning. X-A class 2 is "1X-B2" on purpose: together with
// {X-A: "1", X-B: "2"} it collides under an undelimited name||value hash.
var SelFields = []string{"Accept-Encoding", "Accept-Language", "X-A", "X-B"}

var selValues = [][][]string{
	{ // Accept-Encoding
		{"gzip, br", "br,gzip", "br ,  gzip"},
		{"deflate", "deflate", "deflate"},
		{"identity", "identity", "identity"},
	},
	{ // Accept-Language
		{"en-US, fr;q=0.5", "fr;q=0.5,en-US", "en-US , fr;q=0.50"},
		{"de", "de", "de"},
		{"en-US, fr;q=0.1", "fr;q=0.1, en-US", "en-US,fr;q=0.10"},
	},
	{ // X-A (compared verbatim)
		{"1", "1", "1"},
		{"1X-B2", "1X-B2", "1X-B2"},
		{"X-B", "X-B", "X-B"},
		{"v\xff", "v\xff", "v\xff"}, // classes 4 and 5: two different values that are not UTF-8
		{"v\xfe", "v\xfe", "v\xfe"},
		{"1\n2", "1\n2", "1\n2"}, // class 6: two field lines, "1" and "2" (rendered by buildRequest)
	},
	{ // X-B
		{"2", "2", "2"},
		{"two", "two", "two"},
		{"", "", ""}, // class 3: present but empty (equivalent to absent for matching)
	},
}

var hugeSpellings = []string{
	"2147483648", "2147483649", "4294967296", "9007199254740992", "10000000000",
	"9223372036854775807", "9223372036854775808", "18446744073709551616",
	"99999999999999999999", "1000000000000000000000000000000",
}

var invalidSpellings = []string{"abc", "-1", "1.5", "", "1e3", "0x10"}

type concretiser struct {
	rnd    *rand.Rand
	rndNum *rand.Rand // numbers are rendered alike in all members of a spelling group
}

// padOf: spelling variants 3 and 5 write their delta-seconds with leading zeros (the same number)
func padOf(sp int) int { return []int{0, 0, 0, 1, 0, 9, 0}[((sp%7)+7)%7] }

func (c *concretiser) numPad(n, pad int) string {
	s := c.num(n)
	if pad > 0 && n >= 0 && n < CAP {
		return strings.Repeat("0", pad) + s
	}
	return s
}

func (c *concretiser) num(n int) string {
	switch {
	case n == Invalid:
		return invalidSpellings[c.rndNum.Intn(len(invalidSpellings))]
	case n >= CAP:
		return hugeSpellings[c.rndNum.Intn(len(hugeSpellings))]
	default:
		return strconv.Itoa(n)
	}
}

type directive struct {
	name string
	arg  string
	has  bool
}

// renderCC renders a directive list in spelling variant sp as one or more
// Cache-Control field lines.
func (c *concretiser) renderCC(ds []directive, sp int) []string {
	if len(ds) == 0 {
		return nil
	}
	one := func(d directive, up, quote bool) string {
		n := d.name
		if up {
			switch c.rnd.Intn(3) {
			case 0:
				n = strings.ToUpper(n)
			case 1:
				n = http.CanonicalHeaderKey(n)
			default:
				b := []byte(n)
				for i := range b {
					if i%2 == 0 {
						b[i] = byte(strings.ToUpper(string(b[i]))[0])
					}
				}
				n = string(b)
			}
		}
		if !d.has {
			return n
		}
		a := d.arg
		if quote && !strings.HasPrefix(a, `"`) {
			a = `"` + a + `"`
		}
		return n + "=" + a
	}
	switch sp {
	case 1: // letter case
		parts := make([]string, len(ds))
		for i, d := range ds {
			parts[i] = one(d, true, false)
		}
		return []string{strings.Join(parts, ", ")}
	case 2: // optional whitespace and empty list elements
		var b strings.Builder
		b.WriteString(" ,")
		for i, d := range ds {
			if i > 0 {
				b.WriteString(" ,\t, ")
			}
			b.WriteString(one(d, false, false))
		}
		b.WriteString(" , ")
		return []string{b.String()}
	case 3: // quoted-string arguments
		parts := make([]string, len(ds))
		for i, d := range ds {
			parts[i] = one(d, false, true)
		}
		return []string{strings.Join(parts, ", ")}
	case 4: // one field line per directive, in any order
		parts := make([]string, len(ds))
		rot := c.rnd.Intn(len(ds))
		for i := range ds {
			parts[i] = one(ds[(i+rot)%len(ds)], false, false)
		}
		return parts
	case 5: // reversed order and unknown extensions mixed in
		parts := []string{`x-ext="a, max-age=1, no-store"`}
		for i := len(ds) - 1; i >= 0; i-- {
			parts = append(parts, one(ds[i], false, false))
			if i == len(ds)/2 {
				parts = append(parts, "foo=bar")
			}
		}
		parts = append(parts, "community")
		return []string{strings.Join(parts, ", ")}
	case 6: // everything at once: two lines, mixed case, quotes, OWS
		var a, b []string
		rot := c.rnd.Intn(len(ds))
		for i := range ds {
			d := ds[(i+rot)%len(ds)]
			s := one(d, true, d.has && d.name != "no-cache")
			if i%2 == 0 {
				a = append(a, s)
			} else {
				b = append(b, s)
			}
		}
		out := []string{" " + strings.Join(a, " ,  ") + " ,"}
		if len(b) > 0 {
			out = append(out, strings.Join(b, ",") + ", unknown-ext")
		}
		return out
	default:
		parts := make([]string, len(ds))
		for i, d := range ds {
			parts[i] = one(d, false, false)
		}
		return []string{strings.Join(parts, ", ")}
	}
}

func (c *concretiser) reqDirectives(rq *Rq) []directive {
	var ds []directive
	pad := padOf(rq.Sp)
	for _, f := range rq.Fl {
		ds = append(ds, directive{name: f})
	}
	if rq.Ma != None {
		ds = append(ds, directive{"max-age", c.numPad(rq.Ma, pad), true})
	}
	if rq.Mf != None {
		ds = append(ds, directive{"min-fresh", c.numPad(rq.Mf, pad), true})
	}
	if rq.Ms == NoArg {
		ds = append(ds, directive{name: "max-stale"})
	} else if rq.Ms != None {
		ds = append(ds, directive{"max-stale", c.numPad(rq.Ms, pad), true})
	}
	if rq.Sie != None {
		ds = append(ds, directive{"stale-if-error", c.numPad(rq.Sie, pad), true})
	}
	if len(ds) > 0 && (rq.Sp == 4 || rq.Sp == 6) && c.rnd.Intn(2) == 0 {
		ds = append(ds, directive{name: "no-transform"}) // speaks to transforming intermediaries only
	}
	return ds
}

func (c *concretiser) respDirectives(a *Ans) []directive {
	if a.CCP == 0 {
		return nil
	}
	var ds []directive
	pad := padOf(a.Sp)
	for _, f := range a.Fl {
		if f == "no-cache" && a.Ncf == 1 {
			// (the last one also names fields the cache generates itself: those are not the origin's to withhold)
			ds = append(ds, directive{"no-cache", []string{`"X-Secret"`, `"x-secret"`, `"X-SECRET"`, `"x-other , X-secret"`,
				`"Age, X-Secret, x-httpcache-status, X-From-Cache"`}[c.rnd.Intn(5)], true})
			continue
		}
		if f == "no-cache" && a.Ncf == 2 { // a validator is among the named fields
			ds = append(ds, directive{"no-cache", []string{`"ETag, X-Secret"`, `"etag, x-secret"`}[c.rnd.Intn(2)], true})
			continue
		}
		if f == "no-cache" && a.Ncf == 0 && a.Sp == 5 {
			// said twice, once with field names: the unqualified form is still there
			if c.rnd.Intn(2) == 0 {
				ds = append(ds, directive{name: f}, directive{"no-cache", `"X-Secret"`, true})
			} else {
				ds = append(ds, directive{"no-cache", `"X-Secret"`, true}, directive{name: f})
			}
			continue
		}
		ds = append(ds, directive{name: f})
	}
	if a.Ma != None {
		ds = append(ds, directive{"max-age", c.numPad(a.Ma, pad), true})
	}
	if a.Swr != None {
		ds = append(ds, directive{"stale-while-revalidate", c.numPad(a.Swr, pad), true})
	}
	if a.Sie != None {
		ds = append(ds, directive{"stale-if-error", c.numPad(a.Sie, pad), true})
	}
	if len(ds) == 0 {
		ds = append(ds, directive{name: "x-none"}) // Cache-Control present without known directives
	}
	if a.Sp == 4 || a.Sp == 6 {
		ds = append(ds, c.sharedCacheNoise(a.Ma)...)
	}
	if a.Ma == 0 && (a.Sp == 2 || a.Sp == 3) {
		// a directive given twice: the first occurrence is used, or the response is considered stale (RFC 9111 4.2.1) -
		// after "max-age=0" both readings say the same (these two spellings keep the order of the list)
		ds = append(ds, directive{"max-age", "3600", true})
	}
	return ds
}

// sharedCacheNoise: directives that only speak to shared caches (RFC 9111 5.2.2.7, 5.2.2.8, 5.2.2.10) or to
// transforming intermediaries (5.2.2.6). A private cache has to act as if they were not there; s-maxage is given
// a value that contradicts the lifetime the response really has.
func (c *concretiser) sharedCacheNoise(ma int) []directive {
	contrast := "86400"
	if ma == None || ma > 60 {
		contrast = "0"
	}
	all := []directive{{"s-maxage", contrast, true}, {name: "private"}, {name: "proxy-revalidate"}, {name: "no-transform"}}
	switch c.rnd.Intn(6) {
	case 0:
		return all[:1]
	case 1:
		return all[1:2]
	case 2:
		return all[2:3]
	case 3:
		return []directive{all[0], all[2]}
	case 4:
		return []directive{all[3], all[0]}
	default:
		return all
	}
}

// originOf: the origin of host class h. Classes 0 and 1 are two hosts; 2-5 share the host of class 0 and differ from it
// and from each other in scheme and / or port only (https on its default port, http and https on one explicit port, http on
// the default port of https): an origin is the triple of scheme, host and port (RFC 6454).
func originOf(h int) (scheme, host, explicit, defport string) {
	switch h {
	case 2:
		return "https", "res0.test", "", "443"
	case 3:
		return "http", "res0.test", "8443", "80"
	case 4:
		return "https", "res0.test", "8443", "443"
	case 5:
		return "http", "res0.test", "443", "80"
	default:
		return "http", fmt.Sprintf("res%d.test", h), "", "80"
	}
}

// URL spellings of URI class u; all are equivalent under RFC 3986 6.2.2-6.2.3.
func urlOf(u, sp int) string {
	scheme, host, explicit, defport := originOf(u / 10)
	p := pathSuffix(u)
	port := ""
	if explicit != "" {
		port = ":" + explicit
	}
	base := scheme + "://" + host + port
	// (the last path segment contains a dot: an unreserved character like any other)
	switch sp {
	case 1:
		return strings.ToUpper(scheme) + "://" + strings.ToUpper(host) + port + "/v/it.em" + p + "?q=%7e1"
	case 2:
		if explicit == "" {
			return scheme + "://" + host + ":" + defport + "/v/it.em" + p + "?q=%7E1"
		}
		return base + "/v/it.em" + p + "?q=%7E1"
	case 3:
		return base + "/v/./x/../it.em" + p + "?q=~1"
	case 4:
		return base + "/v/%69t.em" + p + "?q=~1#frag"
	case 5:
		return base + "/%76/it.em" + p + "?q=%7e1"
	case 6:
		return base + "/v/it%2Eem" + p + "?q=~1"
	case 7:
		return base + "/v/it%2eem" + p + "?q=%7E1"
	default:
		return base + "/v/it.em" + p + "?q=~1"
	}
}

const NURLSpellings = 8

// URI class u = 10*host + path.  locOf renders a Location value naming class u.
func locOf(u, form int) string {
	switch form {
	case 1:
		return fmt.Sprintf("/v/it.em%s?q=~1", pathSuffix(u))
	case 2:
		return urlOf(u, 2)
	case 3: // a relative-path reference, resolved against the target (which lives in /v/)
		return fmt.Sprintf("it.em%s?q=~1", pathSuffix(u))
	case 4:
		return fmt.Sprintf("../v/./it%%2Eem%s?q=~1", pathSuffix(u))
	default:
		return urlOf(u, 0)
	}
}

func pathSuffix(u int) string {
	if u%10 == 0 {
		return ""
	}
	return strconv.Itoa(u % 10)
}

func selValue(field, class, sp int) string {
	vs := selValues[field][class-1]
	return vs[sp%len(vs)]
}

func httpDate(t time.Time) string { return t.UTC().Format(http.TimeFormat) }

// httpDateF renders an HTTP-date in one of the three formats a recipient has to accept (RFC 9110 5.6.7).
func httpDateF(t time.Time, f int) string {
	switch f {
	case 1:
		return t.UTC().Format("Monday, 02-Jan-06 15:04:05 GMT")
	case 2:
		return t.UTC().Format(time.ANSIC)
	default:
		return httpDate(t)
	}
}

// logT converts a bubble time to the logged integer time.
func logT(epoch, t time.Time) int {
	d := int64(t.Sub(epoch) / time.Second)
	v := int64(TBase) + d
	if t.Sub(epoch) > 0 && d < 0 { // overflowed Duration
		return TMax
	}
	if v > TMax {
		return TMax
	}
	if v < 1 {
		return 1
	}
	return int(v)
}
