//go:build !verif

package harness

func setFsHook(f func(point, key string)) {}

const hooksAvailable = false
