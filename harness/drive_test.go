package harness

import (
	"bufio"
	"encoding/json"
	"os"
	"strconv"
	"testing"
)

// TestDrive runs the scenarios of $VERIF_SCN (NDJSON) against the real code
// and writes the event trace to $VERIF_OUT.
func TestDrive(t *testing.T) {
	in, out := os.Getenv("VERIF_SCN"), os.Getenv("VERIF_OUT")
	if in == "" || out == "" {
		t.Skip("VERIF_SCN / VERIF_OUT not set")
	}
	seed, _ := strconv.ParseInt(os.Getenv("VERIF_SEED"), 10, 64)
	work := os.Getenv("VERIF_WORK")
	if work == "" {
		work = os.TempDir()
	}
	skip, _ := strconv.Atoi(os.Getenv("VERIF_SKIP"))
	f, err := os.Open(in)
	if err != nil {
		t.Fatal(err)
	}
	defer f.Close()
	log, err := NewEventLog(out)
	if err != nil {
		t.Fatal(err)
	}
	defer log.Close()
	sc := bufio.NewScanner(f)
	sc.Buffer(make([]byte, 1<<20), 64<<20)
	n := 0
	for sc.Scan() {
		n++
		if n <= skip {
			continue
		}
		var s Scenario
		if err := json.Unmarshal(sc.Bytes(), &s); err != nil {
			t.Fatalf("scenario %d: %v", n, err)
		}
		RunScenario(t, &s, log, seed, work)
		if t.Failed() {
			return
		}
	}
}
