package harness

import (
	"bufio"
	"encoding/json"
	"os"
	"strconv"
	"testing"
)

// TestDrive runs the scenarios of $VERIF_SCN (NDJSON) against the real code
// and writes the event trace to $VERIF_OUT.
func TestDrive(t *testing.T) {
	in, out := os.Getenv("VERIF_SCN"), os.Getenv("VERIF_OUT")
	if in == "" || out == "" {
		t.Skip("VERIF_SCN / VERIF_OUT not set")
	}
	seed, _ := strconv.ParseInt(os.Getenv("VERIF_SEED"), 10, 64)
	work := os.Getenv("VERIF_WORK")
	if work == "" {
		work = os.TempDir()
	}
	skip, _ := strconv.Atoi(os.Getenv("VERIF_SKIP"))
	f, err := os.Open(in)
	if err != nil {
		t.Fatal(err)
	}
	defer f.Close()
	log, err := NewEventLog(out)
	if err != nil {
		t.Fatal(err)
	}
	defer log.Close()
	sc := bufio.NewScanner(f)
	sc.Buffer(make([]byte, 1<<20), 64<<20)
	n := 0
	for sc.Scan() {
		n++
		if n <= skip {
			continue
		}
		var s Scenario
		if err := json.Unmarshal(sc.Bytes(), &s); err != nil {
			t.Fatalf("scenario %d: %v", n, err)
		}
		RunScenario(t, &s, log, seed, work)
		if t.Failed() {
			return
		}
	}
}


// TestKV runs key-value scenarios ($VERIF_SCN) against the real backends.
func TestKV(t *testing.T) {
	in, out := os.Getenv("VERIF_SCN"), os.Getenv("VERIF_OUT")
	if in == "" || out == "" {
		t.Skip("VERIF_SCN / VERIF_OUT not set")
	}
	work := os.Getenv("VERIF_WORK")
	if work == "" {
		work = os.TempDir()
	}
	skip, _ := strconv.Atoi(os.Getenv("VERIF_SKIP"))
	f, err := os.Open(in)
	if err != nil {
		t.Fatal(err)
	}
	defer f.Close()
	log, err := NewEventLog(out)
	if err != nil {
		t.Fatal(err)
	}
	defer log.Close()
	sc := bufio.NewScanner(f)
	sc.Buffer(make([]byte, 1<<20), 256<<20)
	n := 0
	for sc.Scan() {
		n++
		if n <= skip {
			continue
		}
		var s KVScenario
		if err := json.Unmarshal(sc.Bytes(), &s); err != nil {
			t.Fatalf("scenario %d: %v", n, err)
		}
		if err := RunKV(&s, log, work); err != nil {
			t.Fatalf("scenario %s: %v", s.ID, err)
		}
	}
}


// TestKVChild is the writer process of the cut / kill scenarios (C15): it performs one Set
// under a file size limit, or kills itself at a chosen step of the write.
func TestKVChild(t *testing.T) {
	mode := os.Getenv("VERIF_CHILD")
	if mode == "" {
		t.Skip("not a child")
	}
	kvChild(mode)
}
