package harness

import (
	"encoding/base64"
	"bytes"
	"encoding/json"
	"errors"
	"fmt"
	"net/url"
	"sync"

	"github.com/bartventer/httpcache/store"
	"github.com/bartventer/httpcache/store/driver"
)

var errFault = errors.New("verif: injected store fault")

// RecConn wraps a real backend connection: it records every operation, scans
// written values for body tokens / tags / hop-by-hop markers, injects scripted
// faults and can gate operations for schedule replay.
type RecConn struct {
	w     *World
	inner driver.Conn
	mu    sync.Mutex
	keyNo map[string]int
	live  map[string]int // shadow of live keys -> json array length (-1 for entries)
	refs  map[string][]string // index key -> the live keys its value named when it was written
}

func newRecConn(w *World, inner driver.Conn) *RecConn {
	return &RecConn{w: w, inner: inner, keyNo: map[string]int{}, live: map[string]int{}}
}

func (c *RecConn) kn(key string) int {
	c.mu.Lock()
	defer c.mu.Unlock()
	n, ok := c.keyNo[key]
	if !ok {
		n = len(c.keyNo) + 1
		c.keyNo[key] = n
	}
	return n
}

func roleOf(v []byte) (string, int) {
	var arr []json.RawMessage
	if len(v) > 0 && v[0] == '[' && json.Unmarshal(v, &arr) == nil {
		return "idx", len(arr)
	}
	return "ent", -1
}

// attribute finds the exchange a store operation belongs to and the fault (if
// any) scripted for it.
func (c *RecConn) attribute() (x int, bg int, f string, g uint64) {
	x, bg, f, _, g = c.attributeP()
	return
}

func (c *RecConn) attributeP() (x int, bg int, f string, pos int, g uint64) {
	w := c.w
	g = gid()
	w.mu.Lock()
	defer w.mu.Unlock()
	var e *exchange
	for _, cand := range w.ex {
		if cand.gid == g && cand.open {
			e = cand
		}
	}
	if e == nil {
		if b, ok := w.byG[g]; ok {
			e, bg = b, 1
		}
	}
	if e == nil {
		return 0, 0, "", 0, g
	}
	e.nops++
	for _, ft := range e.faults {
		if ft.N == e.nops {
			f, pos = ft.Kind, ft.Pos
		}
	}
	return e.x, bg, f, pos, g
}

func (c *RecConn) stats() (int, int) {
	c.mu.Lock()
	defer c.mu.Unlock()
	maxIdx := 0
	for _, n := range c.live {
		if n > maxIdx {
			maxIdx = n
		}
	}
	return len(c.live), maxIdx
}

func (c *RecConn) Get(key string) ([]byte, error) {
	x, bg, f, pos, g := c.attributeP()
	c.w.gateWait(x)
	_ = g
	var v []byte
	var err error
	switch f {
	case "err":
		err = errFault
	case "notexist":
		err = errors.Join(driver.ErrNotExist, errFault)
	default:
		v, err = c.inner.Get(key)
	}
	if err == nil {
		switch f {
		case "trunc":
			v = v[:len(v)/2]
		case "garbage":
			v = []byte("\x00\x01garbage\xff\xfe not a cache value")
		case "null":
			v = []byte("[null]")
		case "empty":
			v = []byte{}
		case "flip":
			if len(v) > 0 {
				v[len(v)/3] ^= 0x55
			}
		case "flipat":
			if pos < len(v) {
				v[pos] ^= 0x20
			}
		case "flipat1": // another letter, not the same letter in the other case
			if pos < len(v) {
				v[pos] ^= 0x01
			}
		case "truncat":
			if pos < len(v) {
				v = v[:pos]
			}
		case "extend":
			v = append(v, []byte("\r\nX-Extra: 1\r\n\r\ntrailing garbage")...)
		case "nullobj":
			v = []byte("null")
		case "idxgarbage":
			v = []byte(`[{"id":"nope","vary":"","vary_resolved":null},{"id":5}]`)
		}
	}
	role, n := "unk", -1
	if err == nil {
		role, n = roleOf(v)
	}
	nk, mi := c.stats()
	c.w.log.Emit(M{"ev": "op", "x": x, "bg": bg, "kind": "get", "role": role, "k": c.kn(key),
		"ok": b2i(err == nil), "nx": b2i(errors.Is(err, driver.ErrNotExist)), "fault": f, "n": n,
		"len": len(v), "toks": scanMarks(tokRe, "tk", v), "tags": scanMarks(tagRe, "tg", v), "hop": len(scanMarks(hopRe, "hp", v)),
		"nkeys": nk, "maxidx": mi, "orph": 0, "t": c.w.now()})
	return v, err
}

func (c *RecConn) Set(key string, value []byte) error {
	x, bg, f, g := c.attribute()
	c.w.gateWait(x)
	_ = g
	var err error
	switch f {
	case "err", "seterr":
		err = errFault
	default:
		err = c.inner.Set(key, value)
	}
	role, n := roleOf(value)
	if err == nil {
		c.mu.Lock()
		c.live[key] = n
		if c.refs == nil {
			c.refs = map[string][]string{}
		}
		delete(c.refs, key)
		if role == "idx" {
			// the keys this index makes reachable: live keys whose text (as JSON would write it, or as base64 for
			// keys that are not UTF-8) occurs in the value
			for k := range c.live {
				if k == key {
					continue
				}
				js, _ := json.Marshal(k)
				if bytes.Contains(value, js[1:len(js)-1]) || bytes.Contains(value, []byte(base64.StdEncoding.EncodeToString([]byte(k)))) {
					c.refs[key] = append(c.refs[key], k)
				}
			}
		}
		c.mu.Unlock()
	}
	nk, mi := c.stats()
	c.w.log.Emit(M{"ev": "op", "x": x, "bg": bg, "kind": "set", "role": role, "k": c.kn(key),
		"ok": b2i(err == nil), "nx": 0, "fault": f, "n": n,
		"len": len(value), "toks": scanMarks(tokRe, "tk", value), "tags": scanMarks(tagRe, "tg", value), "hop": len(scanMarks(hopRe, "hp", value)),
		"nkeys": nk, "maxidx": mi, "orph": 0, "t": c.w.now()})
	return err
}

func (c *RecConn) Delete(key string) error {
	x, bg, f, g := c.attribute()
	c.w.gateWait(x)
	_ = g
	var err error
	switch f {
	case "err", "delerr":
		err = errFault
	default:
		err = c.inner.Delete(key)
	}
	orph := 0
	if err == nil {
		c.mu.Lock()
		delete(c.live, key)
		// an index that goes while entries it named are still there leaves them unreachable
		for _, k := range c.refs[key] {
			if _, ok := c.live[k]; ok {
				orph++
			}
		}
		delete(c.refs, key)
		c.mu.Unlock()
	}
	nk, mi := c.stats()
	c.w.log.Emit(M{"ev": "op", "x": x, "bg": bg, "kind": "del", "role": "unk", "k": c.kn(key),
		"ok": b2i(err == nil), "nx": b2i(errors.Is(err, driver.ErrNotExist)), "fault": f, "n": -1,
		"len": 0, "toks": []string{}, "tags": []string{}, "hop": 0,
		"nkeys": nk, "maxidx": mi, "orph": orph, "t": c.w.now()})
	return err
}

// registry of prepared connections, reachable through the public DSN API
var (
	regMu sync.Mutex
	reg   = map[string]driver.Conn{}
)

func init() {
	store.Register("verif", driver.DriverFunc(func(u *url.URL) (driver.Conn, error) {
		regMu.Lock()
		defer regMu.Unlock()
		c, ok := reg[u.Host]
		if !ok {
			return nil, fmt.Errorf("verif: no connection %q", u.Host)
		}
		return c, nil
	}))
}

func registerConn(name string, c driver.Conn) {
	regMu.Lock()
	reg[name] = c
	regMu.Unlock()
}

func unregisterConn(name string) {
	regMu.Lock()
	delete(reg, name)
	regMu.Unlock()
}
