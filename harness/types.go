// Package harness drives the real bartventer/httpcache transport and backends
// with scripted scenarios and records NDJSON event traces that TLC validates
// against the TLA+ specifications in /verif/spec.
package harness

import (
	"bufio"
	"encoding/json"
	"os"
	"sync"
)

// Sentinels shared with the TLA+ kernel (spec/Rfc9111.tla).
const (
	None    = -1         // header / directive absent
	Invalid = -2         // present but not a valid value
	NoArg   = -3         // max-stale without argument
	CAP     = 1000000000 // saturating top value (stands for ">= 2^31 seconds")
	TBase   = 500000000  // logged time of the bubble's epoch
	TMax    = 2000000000 // logged times are capped here (TLC integers are 32 bit)
)

// Rq is an abstract request.
type Rq struct {
	U     int      `json:"u"`     // URI class (index); URL overrides when non-empty
	URL   string   `json:"url"`   // concrete URL override
	M     string   `json:"m"`     // method
	Range int      `json:"range"` // 1: carries a Range header
	Ma    int      `json:"ma"`    // max-age
	Mf    int      `json:"mf"`    // min-fresh
	Ms    int      `json:"ms"`    // max-stale (NoArg = without argument)
	Sie   int      `json:"sie"`   // stale-if-error
	Fl    []string `json:"fl"`    // no-cache, no-store, only-if-cached
	Sel   []int    `json:"sel"`   // selecting header value classes, one per field (0 = absent)
	SelSp int      `json:"selsp"` // spelling index for selecting header values
	Inm   int      `json:"inm"`   // client's own If-None-Match (0 none, k = etag class k, 9 = other)
	Ims   int      `json:"ims"`   // client's own If-Modified-Since (0 none, 1 present)
	Sp    int      `json:"sp"`    // Cache-Control spelling variant (0 = canonical)
	Ccl   []string `json:"ccl"`   // Cache-Control field lines given verbatim (CcSyntax.tla); the abstract fields say what they mean
	RawKeys int    `json:"rawkeys"` // 1: the selecting header fields are put into the header map under lower-case keys (req.Header["x-a"] = ...)
	USp   int      `json:"usp"`   // URI spelling variant (0 = canonical)
	Pragma int     `json:"pragma"` // 1: Pragma: no-cache and no Cache-Control
	UGap   int     `json:"ugap"`   // 1: URI relation to its class is outside the property's explicit lists
}

// Ans is an abstract scripted origin answer.
type Ans struct {
	K     string   `json:"k"`   // full | 304 | err | hang | bodyerr
	St    int      `json:"st"`  // status
	CCP   int      `json:"ccp"` // Cache-Control present
	Ma    int      `json:"ma"`
	Fl    []string `json:"fl"` // no-cache, no-store, must-revalidate, public, private, immutable, must-understand
	Swr   int      `json:"swr"`
	Sie   int      `json:"sie"`
	Ncf   int      `json:"ncf"`    // 1: no-cache is qualified with field X-Secret, 2: with ETag and X-Secret
	NoDate int     `json:"nodate"` // 1: no Date header
	Dsk   int      `json:"dsk"`    // Date skew: receive time - Date (may be negative)
	Ex    int      `json:"ex"`     // Expires - Date (None, Invalid, or delta which may be <= 0 encoded via ExNeg)
	ExNeg int      `json:"exneg"`  // 1: Ex is to be taken negative
	Lm    int      `json:"lm"`     // Date - Last-Modified (None or delta >= 0)
	Age   int      `json:"age"`    // upstream Age header
	Etag  int      `json:"etag"`   // 0 none, k = class k
	Vary  []int    `json:"vary"`   // selecting field indices
	VS    int      `json:"vs"`     // 1: Vary: *
	Lat   int      `json:"lat"`    // latency in seconds
	Body  int      `json:"body"`   // body kind
	BodyCut int    `json:"bodycut"` // bodyerr: bytes delivered before the failure
	Hop   int      `json:"hop"`    // 1: carries hop-by-hop fields with markers
	Loc   string   `json:"loc"`    // Location (concrete)
	CLoc  string   `json:"cloc"`   // Content-Location (concrete)
	LocU  int      `json:"loc1"`   // 1 + URI class named by Location (0 none); rendered when Loc is empty
	LocSO int      `json:"locso"`  // 1: same origin as the request target
	LocF  int      `json:"locf"`   // rendering form: 0 absolute, 1 relative path, 2 other spelling
	CLocU int      `json:"cloc1"`  // 1 + URI class named by Content-Location (0 none)
	CLocSO int     `json:"clocso"`
	Fr    int      `json:"fr"`     // framing: 0 content-length, 1 chunked, 2 close-delimited, 3 http/1.0, 4 h2-shaped, 5 chunked+trailer
	Sp    int      `json:"sp"`     // Cache-Control spelling variant
	Ccl   []string `json:"ccl"`    // Cache-Control field lines given verbatim (CcSyntax.tla)
	VSp   int      `json:"vsp"`    // spelling of the Vary field: 0 one line, 1 one field line per name, 2 "*" as a member of a list (vs = 1), 3 upper-case names
	DFmt  int      `json:"dfmt"`   // HTTP-date format of Date / Expires / Last-Modified: 0 IMF-fixdate, 1 RFC 850, 2 asctime; 3 with nodate: an unparsable Date instead of none
	Upd   int      `json:"upd"`    // 304: 1 carries an updated X-Upd end-to-end field
	Pragma int     `json:"pragma"`
}

// Fault tampers with the n-th (1-based) store operation of an exchange.
type Fault struct {
	N    int    `json:"n"`
	Kind string `json:"kind"` // err | notexist | trunc | garbage | null | empty | flip | flipat | truncat | extend | seterr | delerr
	Pos  int    `json:"pos"`  // byte position for flipat / truncat
}

type Step struct {
	Op     string  `json:"op"` // req | tick | reopen
	Rq     *Rq     `json:"rq,omitempty"`
	Ans    []Ans   `json:"ans,omitempty"`
	Faults []Fault `json:"faults,omitempty"`
	D      int     `json:"d,omitempty"`
	Cancel int     `json:"cancel,omitempty"` // req: 1 = cancel the caller's context right after return, 2 = before the call
	Reuse    int   `json:"reuse,omitempty"`    // req: after the return the caller reuses its request object and gives X-A this value class
	LateBody int   `json:"latebody,omitempty"` // req: 1 = read the body only after due background work has finished, 2 = at the end of the scenario
	Par    []Step  `json:"par,omitempty"`    // conc: requests issued concurrently
	Sched  []int   `json:"sched,omitempty"`  // conc: gate release order (client indices)
}

type Opt struct {
	Swr    int `json:"swr"`    // WithSWRTimeout in ms; 0 = not set
	SwrSet int `json:"swrset"` // 1: option given even when 0 / negative
	Log    int `json:"log"`    // 0 discard, 1 debug-level handler
	Mtime  int `json:"mtime"`  // fscache update_mtime
	Tz     int `json:"tz"`     // the process's local time zone for this scenario, hours east of UTC (0 = UTC)
}

type Scenario struct {
	ID      string          `json:"id"`
	Backend string          `json:"backend"` // mem | fs | fsenc
	Opt     Opt             `json:"opt"`
	Steps   []Step          `json:"steps"`
	Grp     string          `json:"grp"` // scenarios of one group must show the same abstract observations (C12, C10 logger)
	Spv     int             `json:"spv"` // 0 = the canonical member of the group
	Gk      string          `json:"gk"`  // kind of group: "spell" (C12) or "log" (C10 logger independence)
	Meta    json.RawMessage `json:"meta,omitempty"`
}

// EventLog writes one JSON object per line.
type EventLog struct {
	mu  sync.Mutex
	f   *os.File
	w   *bufio.Writer
	seq int
}

func NewEventLog(path string) (*EventLog, error) {
	f, err := os.Create(path)
	if err != nil {
		return nil, err
	}
	return &EventLog{f: f, w: bufio.NewWriterSize(f, 1<<20)}, nil
}

type M = map[string]any

func (l *EventLog) Emit(ev M) {
	l.mu.Lock()
	defer l.mu.Unlock()
	l.seq++
	ev["seq"] = l.seq
	b, err := json.Marshal(ev)
	if err != nil {
		panic(err)
	}
	l.w.Write(b)
	l.w.WriteByte('\n')
	// the scenario that is running must be identifiable if the process dies in it
	switch ev["ev"] {
	case "reset", "begin", "ret":
		l.w.Flush()
	}
}

func (l *EventLog) Flush() {
	l.mu.Lock()
	defer l.mu.Unlock()
	l.w.Flush()
}

func (l *EventLog) Close() {
	l.Flush()
	l.f.Close()
}

func capv(n int64) int {
	if n >= CAP {
		return CAP
	}
	if n <= -CAP {
		return -CAP
	}
	return int(n)
}

func strs(s []string) []string {
	if s == nil {
		return []string{}
	}
	return s
}

func ints(s []int) []int {
	if s == nil {
		return []int{}
	}
	return s
}
