//go:build verif

package harness

import "github.com/bartventer/httpcache/store/fscache"

// setFsHook installs the file-level step callback of fscache (verif build tag).
func setFsHook(f func(point, key string)) { fscache.VerifStep = f }

const hooksAvailable = true
