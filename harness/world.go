package harness

import (
	"bufio"
	"bytes"
	"context"
	"errors"
	"fmt"
	"io"
	"math/rand"
	"net/http"
	"os"
	"regexp"
	"runtime"
	"strconv"
	"strings"
	"sync"
	"time"
)

type xkey struct{}

// exchange is the harness-side state of one client request.
type exchange struct {
	x      int
	gid    uint64 // goroutine that calls RoundTrip (foreground)
	ans    []Ans
	nextA  int
	faults []Fault
	nops   int
	ncalls int
	open   bool
	hdr    http.Header // client's request headers at the time of the call
	url    string      // ... and its URL
	fg304  []string    // tags of 304s received by foreground calls
	cancel int         // the caller cancels its context (1: after the return, 2: before the call)
	noStore bool       // the request carries no-store: nothing of this exchange may be written back
}

// sentBody remembers the exact bytes sent for a body token.
type sentResp struct {
	trailer bool // sent chunked with the trailer field X-Trail
	body   []byte
	e2e    http.Header // end-to-end headers as parsed by net/http
	status int
}

type ccMeaning struct {
	Ma, Swr, Sie, Ncf int
	Fl                []string
}

type World struct {
	sc    *Scenario
	log   *EventLog
	epoch time.Time
	rnd   *rand.Rand
	con   concretiser

	mu       sync.Mutex
	ex       map[int]*exchange
	byG      map[uint64]*exchange // goroutine -> exchange (fg and bg callers)
	ntok     int
	ntag     int
	nhop     int
	sent     map[string]*sentResp // tok -> what was sent
	tagHdr   map[string]http.Header
	ccTab    map[string]ccMeaning
	dateTab  map[string]int
	etagTab  map[string]int
	varyTab  map[string][]int
	effHdr   map[string]http.Header // tok -> end-to-end headers expected now (after the 304s applied so far)
	tagNS    map[string]bool        // tag -> the response carried no-store (known by construction)
	fuzzy    map[string]bool        // tok -> a background 304 may or may not have been applied (timeout / cancellation race)
	lateTag  map[string]bool        // tag of a background answer that arrived at or after the deadline
	servedX  map[int]string         // exchange -> body token it was answered with from the store
	bg304    map[int][]string       // exchange -> tags of 304s its background revalidation received
	hangs    []chan struct{}
	maxLat   int
	scnSeed  int64
	gated    bool
	gate     *gateCtl
}

func newWorld(sc *Scenario, log *EventLog, seed, baseSeed int64) *World {
	if sc.Grp != "" && sc.Gk == "log" {
		// the members of a logger group are the same input twice: every random choice of the rendering is shared
		// (a byte fault lands on the same text in both runs)
		seed = scnSeed(sc.Grp, baseSeed)
	}
	w := &World{
		sc: sc, log: log, epoch: time.Now(),
		rnd:     rand.New(rand.NewSource(seed)),
		ex:      map[int]*exchange{},
		byG:     map[uint64]*exchange{},
		sent:    map[string]*sentResp{},
		tagHdr:  map[string]http.Header{},
		ccTab:   map[string]ccMeaning{},
		dateTab: map[string]int{},
		etagTab: map[string]int{},
		varyTab: map[string][]int{},
		effHdr:  map[string]http.Header{},
		tagNS:   map[string]bool{},
		fuzzy:   map[string]bool{},
		lateTag: map[string]bool{},
		servedX:  map[int]string{},
		bg304:   map[int][]string{},
		scnSeed: seed,
	}
	numSeed := seed
	if sc.Grp != "" {
		numSeed = scnSeed(sc.Grp, baseSeed)
	}
	w.con = concretiser{rnd: w.rnd, rndNum: rand.New(rand.NewSource(numSeed))}
	return w
}

func (w *World) now() int { return logT(w.epoch, time.Now()) }

func gid() uint64 {
	var buf [64]byte
	n := runtime.Stack(buf[:], false)
	// "goroutine 123 ["
	f := bytes.Fields(buf[:n])
	id, _ := strconv.ParseUint(string(f[1]), 10, 64)
	return id
}

var (
	tokRe = regexp.MustCompile(`~tk(\d+)~`)
	tagRe = regexp.MustCompile(`~tg(\d+)~`)
	hopRe = regexp.MustCompile(`~hp(\d+)~`)
)

func scanMarks(re *regexp.Regexp, prefix string, b []byte) []string {
	seen := map[string]bool{}
	out := []string{}
	for _, m := range re.FindAllSubmatch(b, -1) {
		s := prefix + string(m[1])
		if !seen[s] {
			seen[s] = true
			out = append(out, s)
		}
	}
	return out
}

// ---------------------------------------------------------------------------
// Origin

type Origin struct{ w *World }

var errOrigin = errors.New("verif: scripted origin failure")

type failBody struct {
	r    io.Reader
	left int
}

var errBody = errors.New("verif: scripted body read failure")

func (b *failBody) Read(p []byte) (int, error) {
	if b.left <= 0 {
		return 0, errBody
	}
	if len(p) > b.left {
		p = p[:b.left]
	}
	n, err := b.r.Read(p)
	b.left -= n
	if err == io.EOF {
		return n, errBody
	}
	return n, err
}
func (b *failBody) Close() error { return nil }

func (w *World) payload(kind int, tok string) []byte {
	mark := []byte("~" + tok + "~")
	switch kind {
	case 1: // empty body
		return []byte{}
	case 2: // one byte
		return []byte{'x'}
	case 3: // CR / LF / NUL and text resembling HTTP framing
		return append(mark, []byte("\r\n\r\nHTTP/1.1 200 OK\r\nContent-Length: 3\r\n\r\nabc\x00\x00\r\n0\r\n\r\n")...)
	case 4, 5: // random bytes, 64 KiB / 1 MiB
		n := 64 << 10
		if kind == 5 {
			n = 1 << 20
		}
		b := make([]byte, n)
		w.rnd.Read(b)
		copy(b, mark)
		return b
	case 6: // small random bytes of seeded length
		b := make([]byte, len(mark)+w.rnd.Intn(300))
		w.rnd.Read(b)
		copy(b, mark)
		return b
	default:
		return append(mark, []byte(" hello body\n")...)
	}
}

// buildResponse renders an abstract answer at time now (the moment the origin
// generates it) and returns the response, its abstract record and identity.
func (w *World) buildResponse(req *http.Request, a *Ans, now time.Time) (*http.Response, M, string, string) {
	w.mu.Lock()
	w.ntag++
	tag := "tg" + strconv.Itoa(w.ntag)
	tok := ""
	if a.K != "304" {
		w.ntok++
		tok = "tk" + strconv.Itoa(w.ntok)
	}
	w.mu.Unlock()

	st := a.St
	if a.K == "304" {
		st = 304
	}
	hdr := [][2]string{}
	add := func(k, v string) { hdr = append(hdr, [2]string{k, v}) }
	add("X-Verif-Tag", "~"+tag+"~")
	if a.Sp == 2 || a.Sp == 5 {
		// the origin sits behind another caching layer that uses the same field names for its own verdict
		add("X-From-Cache", "1")
		add("X-Httpcache-Status", "HIT")
	}
	if tok != "" {
		add("X-Verif-Tok", "~"+tok+"~")
		add("Content-Type", "text/plain; charset=utf-8")
		add("X-Multi", "one")
		add("X-Multi", "two, three")
		add("X-Empty", "")
		add("X-Secret", "s3cr3t-"+tag)
	}
	if a.Upd == 1 {
		add("X-Upd", "upd-"+tag)
		add("Content-Language", "upd-"+tag) // a 304 may update any field but the ones that describe the missing body's length
	}
	m := M{"st": st, "ccp": a.CCP, "ma": None, "fl": []string{}, "swr": None, "sie": None, "ncf": 0}
	ds := w.con.respDirectives(a)
	if a.CCP == 1 {
		lines := a.Ccl
		if lines == nil {
			lines = w.con.renderCC(ds, a.Sp)
		}
		for _, l := range lines {
			add("Cache-Control", l)
		}
		mean := ccMeaning{Ma: a.Ma, Swr: a.Swr, Sie: a.Sie, Ncf: a.Ncf, Fl: strs(a.Fl)}
		trimmed := make([]string, len(lines))
		for i, l := range lines {
			trimmed[i] = strings.Trim(l, " \t") // net/http trims field values
		}
		w.mu.Lock()
		w.ccTab[strings.Join(trimmed, "\x00")] = mean
		w.mu.Unlock()
		m["ma"], m["fl"], m["swr"], m["sie"], m["ncf"] = a.Ma, strs(a.Fl), a.Swr, a.Sie, a.Ncf
	}
	if a.Pragma == 1 {
		add("Pragma", "no-cache")
	}
	date := now.Add(-time.Duration(a.Dsk) * time.Second)
	if a.Dsk >= CAP {
		// an origin clock that is centuries off: further back than a time.Duration can express
		date = time.Date([]int{1066, 1583, 1700}[w.rnd.Intn(3)], time.March, 1, 12, 0, 0, 0, time.UTC)
	}
	if a.NoDate == 1 {
		date = now
		if a.DFmt == 3 { // a Date field nobody can parse is no Date
			add("Date", now.UTC().Format("Mon, 02 Jan 2006 15:04:05")+" UTC")
		}
		m["date"], m["dateg"] = logT(w.epoch, now), 0
	} else {
		s := httpDateF(date, a.DFmt)
		add("Date", s)
		w.regDate(s, date)
		m["date"], m["dateg"] = logT(w.epoch, date), 1
	}
	switch {
	case a.Ex == None:
		m["exp"] = None
	case a.Ex == Invalid:
		s := []string{"0", "-1", "garbage", "Thu, 01 Jan 1970 00:00:00 UTC"}[w.rnd.Intn(4)]
		add("Expires", s)
		w.mu.Lock()
		w.dateTab[s] = Invalid
		w.mu.Unlock()
		m["exp"] = Invalid
	default:
		d := time.Duration(a.Ex) * time.Second
		if a.Ex >= CAP {
			d = time.Duration(1<<31+w.rnd.Intn(1000)) * time.Second
		}
		if a.ExNeg == 1 {
			d = -d
		}
		e := date.Add(d)
		s := httpDateF(e, a.DFmt)
		add("Expires", s)
		w.regDate(s, e)
		m["exp"] = logT(w.epoch, e)
	}
	if a.Lm == None {
		m["lm"] = None
	} else {
		l := date.Add(-time.Duration(a.Lm) * time.Second)
		s := httpDateF(l, a.DFmt)
		add("Last-Modified", s)
		w.regDate(s, l)
		m["lm"] = logT(w.epoch, l)
	}
	if a.Age != None {
		add("Age", w.con.num(a.Age))
	}
	m["age"] = a.Age
	m["etag"] = a.Etag
	if a.Etag > 0 {
		s := fmt.Sprintf(`"etag-%d"`, a.Etag)
		if a.Etag == 7 {
			s = "etag-7-unquoted" // servers send these; it is opaque to a cache all the same
		} else if a.Etag == 8 {
			s = `W/"etag-8"`
		}
		add("ETag", s)
		w.mu.Lock()
		w.etagTab[s] = a.Etag
		w.mu.Unlock()
	}
	m["vary"], m["vs"] = ints(a.Vary), a.VS
	if a.VS == 1 {
		s := "*"
		if a.VSp == 2 { // any list with the member "*" means the same
			i := w.rnd.Intn(3)
			s = []string{"X-A, *", "*, accept-language", "X-B ,*"}[i]
			// (the fields that are named besides "*" are logged: they make it another Vary field set for the footprint)
			m["vary"] = []int{[]int{2, 1, 3}[i]}
		}
		add("Vary", s)
		w.mu.Lock()
		w.varyTab[s] = []int{-1}
		w.mu.Unlock()
	} else if len(a.Vary) > 1 && a.VSp == 1 {
		// one field line per name: the list is the concatenation of the lines
		w.mu.Lock()
		for _, f := range a.Vary {
			add("Vary", SelFields[f])
		}
		w.varyTab[SelFields[a.Vary[0]]+"\x00multi"] = a.Vary
		w.mu.Unlock()
	} else if len(a.Vary) > 0 {
		names := make([]string, len(a.Vary))
		for i, f := range a.Vary {
			names[i] = SelFields[f]
			if a.Sp%2 == 1 {
				names[i] = strings.ToLower(names[i])
			}
			if a.VSp == 3 {
				names[i] = strings.ToUpper(names[i])
			}
		}
		s := strings.Join(names, ", ")
		add("Vary", s)
		w.mu.Lock()
		w.varyTab[s] = a.Vary
		w.mu.Unlock()
	}
	loc, cloc := a.Loc, a.CLoc
	if loc == "" && a.LocU > 0 {
		loc = locOf(a.LocU-1, a.LocF)
	}
	if cloc == "" && a.CLocU > 0 {
		cloc = locOf(a.CLocU-1, a.LocF)
	}
	if loc != "" {
		add("Location", loc)
	}
	if cloc != "" {
		add("Content-Location", cloc)
	}
	m["locu"], m["locso"], m["clocu"], m["clocso"] = -1, 0, -1, 0
	if loc != "" {
		m["locu"], m["locso"] = a.LocU-1, a.LocSO
	}
	if cloc != "" {
		m["clocu"], m["clocso"] = a.CLocU-1, a.CLocSO
	}
	nhop := 0
	if a.Hop == 2 && a.Fr != 2 && a.Fr != 3 {
		// this response declares a field hop-by-hop that every other response carries end to end
		add("Connection", "X-Multi")
	}
	if a.Hop == 1 {
		w.mu.Lock()
		w.nhop++
		hp := "~hp" + strconv.Itoa(w.nhop) + "~"
		nth := w.nhop
		w.mu.Unlock()
		if a.Fr != 2 && a.Fr != 3 {
			// net/http drops every Connection line of a response that says "close"
			// (close-delimited framings), so a field named there is unknowable then
			// the Connection list on one field line or on several (RFC 9110 5.3: together they are one list)
			switch nth % 3 {
			case 0:
				add("Connection", "X-Hop-A, keep-alive")
			case 1:
				add("Connection", "keep-alive")
				add("Connection", "X-Hop-A")
			default:
				add("Connection", "x-hop-b")
				add("Connection", "keep-alive, x-hop-a")
				add("X-Hop-B", hp)
			}
			add("X-Hop-A", hp)
		}
		add("Keep-Alive", "timeout=5, x="+hp)
		add("Proxy-Authenticate", `Basic realm="`+hp+`"`)
		add("Proxy-Authentication-Info", hp)
		add("Upgrade", hp)
		add("Te", hp)
		add("Proxy-Connection", hp)
		nhop = 1
	}
	m["hop"] = nhop

	var body []byte
	if tok != "" && st != 204 && st != 304 && st >= 200 && req.Method != http.MethodHead {
		body = w.payload(a.Body, tok)
	}
	// wire form -> *http.Response, as a real transport would produce it
	var wire bytes.Buffer
	proto := "HTTP/1.1"
	if a.Fr == 3 {
		proto = "HTTP/1.0"
	}
	fmt.Fprintf(&wire, "%s %d %s\r\n", proto, st, http.StatusText(st))
	for _, kv := range hdr {
		fmt.Fprintf(&wire, "%s: %s\r\n", kv[0], kv[1])
	}
	bodyAllowed := st >= 200 && st != 204 && st != 304
	switch {
	case !bodyAllowed:
		wire.WriteString("\r\n")
	case a.Fr == 1 || a.Fr == 5:
		wire.WriteString("Transfer-Encoding: chunked\r\n")
		if a.Fr == 5 {
			wire.WriteString("Trailer: X-Trail\r\n")
		}
		wire.WriteString("\r\n")
		rest := body
		for len(rest) > 0 {
			n := 1 + w.rnd.Intn(4096)
			if n > len(rest) {
				n = len(rest)
			}
			fmt.Fprintf(&wire, "%x\r\n", n)
			wire.Write(rest[:n])
			wire.WriteString("\r\n")
			rest = rest[n:]
		}
		wire.WriteString("0\r\n")
		if a.Fr == 5 {
			wire.WriteString("X-Trail: trailer-value\r\n")
		}
		wire.WriteString("\r\n")
	case a.Fr == 2 || a.Fr == 3:
		wire.WriteString("Connection: close\r\n\r\n")
		wire.Write(body)
	default:
		fmt.Fprintf(&wire, "Content-Length: %d\r\n\r\n", len(body))
		wire.Write(body)
	}
	if os.Getenv("VERIF_DUMP") == "1" {
		fmt.Fprintf(os.Stderr, "---- %s %s\n%s\n", w.sc.ID, req.URL, strings.SplitN(wire.String(), "\r\n\r\n", 2)[0])
	}
	resp, err := http.ReadResponse(bufio.NewReader(&wire), req)
	if err != nil {
		panic(fmt.Sprintf("harness: cannot build response: %v\n%q", err, wire.String()))
	}
	if a.Fr == 4 { // shaped like an HTTP/2 response as net/http delivers it
		resp.Proto, resp.ProtoMajor, resp.ProtoMinor = "HTTP/2.0", 2, 0
		resp.Status = strconv.Itoa(st) + " " + http.StatusText(st)
	}
	if a.K == "bodyerr" {
		resp.Body = &failBody{r: resp.Body, left: a.BodyCut}
	}
	m["fr"], m["body"] = a.Fr, a.Body
	// remember end-to-end content for byte-faithfulness comparisons
	e2e := resp.Header.Clone()
	if a.Hop == 2 && a.Fr != 2 && a.Fr != 3 {
		e2e.Del("X-Multi")
	}
	if a.NoDate == 1 {
		e2e.Del("Date") // none, or one nobody can parse: the cache supplies its own
	}
	for _, h := range []string{"Connection", "X-Hop-A", "X-Hop-B", "Keep-Alive", "Proxy-Authenticate",
		"Proxy-Authentication-Info", "Upgrade", "Te", "Proxy-Connection", "Transfer-Encoding", "Trailer"} {
		e2e.Del(h)
	}
	w.mu.Lock()
	if tok != "" {
		w.sent[tok] = &sentResp{body: body, e2e: e2e, status: st, trailer: a.Fr == 5 && bodyAllowed}
		w.effHdr[tok] = e2e.Clone()
	}
	w.tagHdr[tag] = e2e
	w.tagNS[tag] = a.CCP == 1 && contains(a.Fl, "no-store")
	w.mu.Unlock()
	return resp, m, tag, tok
}

func (w *World) sentBody(tok string) []byte {
	w.mu.Lock()
	defer w.mu.Unlock()
	if sr := w.sent[tok]; sr != nil {
		return sr.body
	}
	return nil
}

func (w *World) regDate(s string, t time.Time) {
	w.mu.Lock()
	w.dateTab[s] = logT(w.epoch, t)
	w.mu.Unlock()
}

func defaultAns() Ans {
	return Ans{K: "full", St: 200, CCP: 1, Ma: 100, Swr: None, Sie: None, Ex: None, Lm: None, Age: None}
}

func (o *Origin) RoundTrip(req *http.Request) (*http.Response, error) {
	w := o.w
	x, _ := req.Context().Value(xkey{}).(int)
	g := gid()
	w.mu.Lock()
	e := w.ex[x]
	if e == nil {
		w.mu.Unlock()
		panic("harness: origin call without exchange")
	}
	bg := 0
	if g != e.gid {
		bg = 1
		w.byG[g] = e
	}
	e.ncalls++
	call := e.ncalls
	var a Ans
	scripted := 1
	if e.nextA < len(e.ans) {
		a = e.ans[e.nextA]
		e.nextA++
	} else {
		a = defaultAns()
		scripted = 0
	}
	w.mu.Unlock()
	w.gateWait(x)
	t0 := time.Now()
	inm, ims := req.Header.Get("If-None-Match"), req.Header.Get("If-Modified-Since")
	if a.K == "304" && inm == "" && ims == "" {
		// no origin answers 304 to an unconditional request
		a = defaultAns()
		scripted = 2
	}
	ev := M{"ev": "call", "x": x, "c": call, "bg": bg, "scripted": scripted, "k": a.K,
		"m": req.Method, "t0": logT(w.epoch, t0), "lat": a.Lat,
		"inm": w.etagClass(inm), "ims": w.dateClass(ims), "rng": b2i(req.Header.Get("Range") != "" || len(req.Header["range"]) > 0),
		"oic": b2i(strings.Contains(strings.ToLower(strings.Join(req.Header.Values("Cache-Control"), ",")), "only-if-cached")),
		"url": req.URL.String(), "hsame": b2i(sameButConditional(req.Header, e.hdr)), "usame": b2i(e.url == "" || req.URL.String() == e.url),
	}
	done := func(kind, tag, tok string, m M, ctxDone int) {
		ev["kind"], ev["tag"], ev["tok"], ev["t1"], ev["ctxdone"] = kind, tag, tok, w.now(), ctxDone
		if m == nil {
			m = M{"st": 0, "vary": []int{}, "vs": 0, "age": None, "locu": -1, "locso": 0, "clocu": -1, "clocso": 0}
		}
		ev["rep"] = m
		w.log.Emit(ev)
	}
	if a.K == "hang" {
		// never answers; returns only when the request context ends
		select {
		case <-req.Context().Done():
			done("cancelled", "", "", nil, 1)
			return nil, req.Context().Err()
		case <-w.hangRelease():
			done("released", "", "", nil, 0)
			return nil, errOrigin
		}
	}
	if a.Lat > 0 {
		tm := time.NewTimer(time.Duration(a.Lat) * time.Second)
		select {
		case <-tm.C:
		case <-req.Context().Done():
			tm.Stop()
			done("cancelled", "", "", nil, 1)
			return nil, req.Context().Err()
		}
	}
	if a.K == "err" {
		done("err", "", "", nil, 0)
		return nil, errOrigin
	}
	resp, m, tag, tok := w.buildResponse(req, &a, time.Now())
	kind := "full"
	if a.K == "304" {
		kind = "304"
	}
	if a.K == "bodyerr" {
		kind = "bodyerr"
	}
	m["reqT"], m["respT"] = logT(w.epoch, t0), w.now()
	if bg == 0 && kind == "304" {
		w.mu.Lock()
		e.fg304 = append(e.fg304, tag)
		w.mu.Unlock()
	}
	if bg == 1 && kind == "304" {
		w.mu.Lock()
		late := e.cancel != 0 || req.Context().Err() != nil || time.Since(t0) >= time.Duration(swrEffective(w.sc.Opt))*time.Millisecond
		if late {
			w.lateTag[tag] = true
		}
		if tk, ok := w.servedX[x]; ok {
			if late {
				w.fuzzy[tk] = true
			} else if !e.noStore && (a.CCP == 0 || !contains(a.Fl, "no-store")) {
				w.apply304(tk, tag)
			}
		} else {
			w.bg304[x] = append(w.bg304[x], tag)
		}
		w.mu.Unlock()
	}
	done(kind, tag, tok, m, 0)
	return resp, nil
}

// apply304 replaces the expected end-to-end fields of tok by those of the 304
// with the given tag (w.mu held).
func (w *World) apply304(tok, tag string) {
	cur, h := w.effHdr[tok], w.tagHdr[tag]
	if cur == nil || h == nil {
		return
	}
	for k, v := range h {
		if k != "Content-Length" {
			cur[k] = v
		}
	}
	if _, ok := h["Date"]; !ok {
		delete(cur, "Date") // a 304 without a (usable) Date: the cache supplies the time it received it
	}
}

// gateWait blocks a store operation or origin call of exchange x while a scheduled
// concurrent step is replayed.
func (w *World) gateWait(x int) {
	w.mu.Lock()
	g := w.gate
	w.mu.Unlock()
	if g != nil {
		g.wait(x)
	}
}

func (w *World) hangRelease() chan struct{} {
	w.mu.Lock()
	defer w.mu.Unlock()
	c := make(chan struct{})
	w.hangs = append(w.hangs, c)
	return c
}

func (w *World) releaseHangs() {
	w.mu.Lock()
	defer w.mu.Unlock()
	for _, c := range w.hangs {
		close(c)
	}
	w.hangs = nil
}

func (w *World) etagClass(s string) int {
	if s == "" {
		return 0
	}
	w.mu.Lock()
	defer w.mu.Unlock()
	if c, ok := w.etagTab[s]; ok {
		return c
	}
	if s == `"client-etag"` {
		return 9
	}
	return Invalid
}

// dateClass maps a date string the harness produced to its logged time
// (0 = header absent, Invalid = a string the harness never produced).
func (w *World) dateClass(s string) int {
	if s == "" {
		return 0
	}
	w.mu.Lock()
	defer w.mu.Unlock()
	if c, ok := w.dateTab[s]; ok {
		return c
	}
	return Invalid
}

func sameButConditional(a, b http.Header) bool {
	strip := func(h http.Header) http.Header {
		c := h.Clone()
		c.Del("If-None-Match")
		c.Del("If-Modified-Since")
		return c
	}
	x, y := strip(a), strip(b)
	if len(x) != len(y) {
		return false
	}
	for k, v := range x {
		w, ok := y[k]
		if !ok || len(v) != len(w) {
			return false
		}
		for i := range v {
			if v[i] != w[i] {
				return false
			}
		}
	}
	return true
}

func contains(s []string, x string) bool {
	for _, v := range s {
		if v == x {
			return true
		}
	}
	return false
}

func b2i(b bool) int {
	if b {
		return 1
	}
	return 0
}

var _ = context.Background
